"""C01 - every segment a live manifest advertises is retrievable.

Manifest side (real code): DashTiming + Representation.generateSegmentTimeline; for $Number$
the DASH availability window (ISO/IEC 23009-1 5.3.9.5.3) computed by the harness only from the
values the manifest prints (availabilityStartTime, timeShiftBufferDepth, startNumber, duration,
timescale).  Media side (real code): the DashTiming the media endpoint rebuilds from the URL
values, then LiveMedia.calculate_media_segment_index.  The clock is base instant + symbolic
window of microseconds (DESIGN.md 2.3).
"""
from __future__ import annotations

from . import common
from . import timing_kernel as tk

PROPERTY = 'C01'
US = 1_000_000

ASSUMPTIONS = [
    'availabilityStartTime is the explicit instant 2024-01-01T00:00:00Z (symbolic starts resolve to an instant: C08; the URL carries it unchanged: C07)',
    'now = AST + base + eps, base from the catalogue, eps any microsecond in [0, window)',
    'the media request uses the option values the manifest writes into the media URL (start, depth, leeway)',
    'leeway is an integer option value (seconds); None selects the endpoint default of 16 s',
]
OUTSIDE = ['HTTP routing and status line', 'init-segment route (no time-dependent refusal exists there)',
           'BaseURL/template string assembly (C07)', 'layouts outside the catalogue']

Q_PAIRS = [('bbb_v7', 'bbb_v7'), ('bbb_a1', 'bbb_v7'), ('bbb_t1', 'bbb_v7'), ('syn_short_last', 'syn_short_last')]
# thorough catalogue sized by wall time (the full 16 x 8 product with depth 120 ran past 75 minutes)
T_PAIRS = Q_PAIRS + [('tears_v1', 'tears_v1'), ('syn_long_first', 'syn_long_first'), ('syn_sn0', 'syn_sn0'),
                     ('syn_st', 'syn_st'), ('syn_10mhz', 'syn_10mhz'), ('syn_irregular', 'syn_irregular')]
Q_BASES = ['65s', '1h', '1d-20s', '1y', '54y']
T_BASES = Q_BASES + ['10min', 'x32']

LEEWAY_MIN = 0     # obligations are stated for every leeway >= LEEWAY_MIN


def bounds(tier):
    return {
        'pairs(rep,reference)': Q_PAIRS if tier == 'quick' else T_PAIRS,
        'base_instants': Q_BASES if tier == 'quick' else T_BASES,
        'clock_window': 'two loops of the reference (every microsecond phase)',
        'timeline_depth_s': [1, 30] if tier == 'quick' else [1, 60],
        'number_depth_s': [0, 1800],
        'leeway_s': 'None or [0, 120]',
    }


def OBLIGATIONS(tier):
    return ['C01.time', 'C01.number', 'C01.exc']


def _window_us(ref_name):
    r = common.ref_tuple(ref_name)
    loop_us = -(-r['media_duration'] * US // r['timescale'])
    return 2 * loop_us


def _setup(sx, rep_name, ref_name, base, depth_rng, leeway_mode):
    base_s = tk.base_seconds(base, rep_name)
    W = _window_us(ref_name)
    eps = sx.int('eps_us', 0, W - 1)
    elapsed_us = base_s * US + eps
    now = tk.now_from_elapsed_us(elapsed_us)
    depth = sx.int('depth', depth_rng[0], depth_rng[1])
    if leeway_mode == 'none':
        leeway = 16      # the option is absent from the URL: OptionsRepository default
    else:
        leeway = sx.int('leeway', LEEWAY_MIN, 120)
    return now, elapsed_us, depth, leeway


def h_time(sx, rep_name, ref_name, base, depth_max, leeway_mode):
    from pysx.core import sx_and
    now, elapsed_us, depth, leeway = _setup(sx, rep_name, ref_name, base, (1, depth_max), leeway_mode)
    mt, mopts = tk.manifest_timing(now, ref_name, depth, leeway)
    rep = common.make_rep(rep_name)
    rep.set_dash_timing(mt)
    try:
        timeline = rep.generateSegmentTimeline()
    except Exception as e:
        sx.fail('C01.exc', detail={'side': 'manifest', 'raised': type(e).__name__, 'msg': str(e)[:100]})
        return
    entries = tk.expand_timeline(timeline)
    sx.note('entries', len(entries))
    if not entries:
        sx.prove(True, 'C01.time')
        return
    # one advertised entry per path (the index is a path decision)
    j = sx.int('entry', 0, len(entries) - 1)
    j = j.concrete('entry') if not isinstance(j, int) else j
    t, d, mod = entries[j]
    ts = rep.timescale
    # advertised and already complete: (t + d) / timescale <= elapsed
    sx.assume((t + d) * US <= elapsed_us * ts, 'timeline entries whose end is not later than now')
    sx.note('request', {'t': t, 'd': d, 'entry': j})
    # media endpoint
    xt, xopts = tk.media_timing(now, ref_name, mt, leeway)
    rep2 = common.make_rep(rep_name)
    rep2.set_dash_timing(xt)
    det = {'t': t, 'd': d, 'entry': j, 'elapsed_us': elapsed_us, 'depth': depth, 'leeway': leeway,
           'tsbd': mt.timeShiftBufferDepth}
    try:
        mod_segment, origin, num = tk.media_index(rep2, xt, None, t)
    except ValueError as e:
        sx.fail('C01.time', detail=dict(det, refused=str(e)[:160]))
        return
    except Exception as e:
        sx.fail('C01.exc', detail=dict(det, raised=type(e).__name__, msg=str(e)[:100]))
        return
    sx.prove(True, 'C01.exc')
    sx.prove(sx_and(1 <= mod_segment, mod_segment <= rep.num_media_segments), 'C01.time',
             detail=dict(det, mod_segment=mod_segment))
    sx.note('expect', {'mod_segment': mod_segment, 'origin': origin})


def _number_range(rep_name, ref_name, base, depth_max):
    """concrete superset of the segment numbers whose availability window can contain now"""
    j = common.layouts()[rep_name]
    ts, d, sn = j['timescale'], j['segment_duration'], j.get('start_number', 1)
    W = _window_us(ref_name)
    lo_el = tk.base_seconds(base, rep_name) * US
    hi_el = lo_el + W
    k_hi = hi_el * ts // (d * US)
    k_lo = max(0, (lo_el - depth_max * US) * ts // (d * US) - 3)
    return sn + k_lo, sn + k_hi + 1


def h_number(sx, rep_name, ref_name, base, depth_max, leeway_mode):
    from pysx.core import sx_and
    now, elapsed_us, depth, leeway = _setup(sx, rep_name, ref_name, base, (0, depth_max), leeway_mode)
    mt, mopts = tk.manifest_timing(now, ref_name, depth, leeway)
    rep = common.make_rep(rep_name)
    rep.set_dash_timing(mt)
    ts, d, sn = rep.timescale, rep.segment_duration, rep.start_number
    tsbd = mt.timeShiftBufferDepth
    nlo, nhi = _number_range(rep_name, ref_name, base, depth_max)
    n = sx.int('n', nlo, nhi)
    k = n - sn
    A = elapsed_us * ts
    # ISO/IEC 23009-1 5.3.9.5.3 from manifest values only: [AST + (k+1) d/ts, + tsbd + d/ts]
    sx.assume(k >= 0)
    sx.assume((k + 1) * d * US <= A, 'segment availability start time <= now')
    sx.assume(A <= (k + 2) * d * US + tsbd * US * ts, 'now <= segment availability end time')
    xt, xopts = tk.media_timing(now, ref_name, mt, leeway)
    rep2 = common.make_rep(rep_name)
    rep2.set_dash_timing(xt)
    det = {'n': n, 'elapsed_us': elapsed_us, 'depth': depth, 'leeway': leeway, 'tsbd': tsbd}
    try:
        mod_segment, origin, num = tk.media_index(rep2, xt, n, None)
    except ValueError as e:
        sx.fail('C01.number', detail=dict(det, refused=str(e)[:160]))
        return
    except Exception as e:
        sx.fail('C01.exc', detail=dict(det, raised=type(e).__name__, msg=str(e)[:100]))
        return
    sx.prove(True, 'C01.exc')
    sx.prove(sx_and(1 <= mod_segment, mod_segment <= rep.num_media_segments, num == n), 'C01.number',
             detail=dict(det, mod_segment=mod_segment))
    sx.note('expect', {'mod_segment': mod_segment, 'origin': origin})


def instances(tier):
    pairs = Q_PAIRS if tier == 'quick' else T_PAIRS
    bases = Q_BASES if tier == 'quick' else T_BASES
    tdepth = 30 if tier == 'quick' else 60
    out = []
    for rep_name, ref_name in pairs:
        for base in bases:
            for lw in ('none', 'int'):
                out.append({'name': f'time[{rep_name}/{ref_name},{base},leeway={lw}]', 'fn': h_time, 'weight': 4,
                            'params': {'rep_name': rep_name, 'ref_name': ref_name, 'base': base,
                                       'depth_max': tdepth, 'leeway_mode': lw},
                            'opts': {'max_paths': 50000, 'max_decisions': 3000, 'fork_limit': 200}})
                out.append({'name': f'number[{rep_name}/{ref_name},{base},leeway={lw}]', 'fn': h_number, 'weight': 1,
                            'params': {'rep_name': rep_name, 'ref_name': ref_name, 'base': base,
                                       'depth_max': 1800, 'leeway_mode': lw},
                            'opts': {'max_paths': 50000, 'max_decisions': 3000}})
    return out


# ---------------------------------------------------------------------------
# concrete side

def _concrete(params, inputs):
    import datetime
    base_s = tk.base_seconds(params['base'], params['rep_name'])
    elapsed_us = base_s * US + inputs['eps_us']
    now = tk.now_from_elapsed_us(elapsed_us)
    leeway = inputs.get('leeway') if params['leeway_mode'] == 'int' else 16
    mt, _ = tk.manifest_timing(now, params['ref_name'], inputs['depth'], leeway)
    rep = common.make_rep(params['rep_name'])
    rep.set_dash_timing(mt)
    xt, _ = tk.media_timing(now, params['ref_name'], mt, leeway)
    rep2 = common.make_rep(params['rep_name'])
    rep2.set_dash_timing(xt)
    return now, elapsed_us, mt, rep, xt, rep2, leeway


def _try(rep2, xt, seg_num, seg_time):
    try:
        mod_segment, origin, num = tk.media_index(rep2, xt, seg_num, seg_time)
        return {'mod_segment': mod_segment, 'origin': origin, 'num': num}
    except ValueError as e:
        return {'refused': str(e)[:200]}
    except Exception as e:
        return {'raised': type(e).__name__, 'msg': str(e)[:200]}


def observe(instance, params, inputs):
    now, elapsed_us, mt, rep, xt, rep2, leeway = _concrete(params, inputs)
    if instance.startswith('time['):
        entries = tk.expand_timeline(rep.generateSegmentTimeline())
        t, d, mod = entries[inputs['entry']]
        r = _try(rep2, xt, None, t)
    else:
        r = _try(rep2, xt, inputs['n'], None)
    if 'mod_segment' in r:
        return {'mod_segment': r['mod_segment'], 'origin': r['origin']}
    return r


def replay(case):
    from fractions import Fraction
    params, inputs, inst = case['params'], case['inputs'], case['instance']
    now, elapsed_us, mt, rep, xt, rep2, leeway = _concrete(params, inputs)
    ts = rep.timescale
    obs = {'now': now.isoformat(), 'elapsed_s': str(Fraction(elapsed_us, US)), 'depth': inputs['depth'],
           'tsbd': mt.timeShiftBufferDepth, 'leeway': leeway}
    if inst.startswith('time['):
        entries = tk.expand_timeline(rep.generateSegmentTimeline())
        if inputs['entry'] >= len(entries):
            return {'violated': False, 'observed': dict(obs, note='entry index beyond the timeline')}
        # the solver's entry first, then every other complete entry of the same manifest
        order = [inputs['entry']] + [i for i in range(len(entries)) if i != inputs['entry']]
        for i in order:
            t, d, mod = entries[i]
            if Fraction(t + d, ts) > Fraction(elapsed_us, US):
                continue
            r = _try(rep2, xt, None, t)
            ok = 'mod_segment' in r and 1 <= r['mod_segment'] <= rep.num_media_segments
            if not ok:
                return {'violated': True, 'observed': dict(obs, entry=i, t=t, d=d, timescale=ts, result=r)}
        return {'violated': False, 'observed': obs}
    n = inputs['n']
    k = n - rep.start_number
    d = rep.segment_duration
    start = Fraction((k + 1) * d, ts)
    end = start + mt.timeShiftBufferDepth + Fraction(d, ts)
    el = Fraction(elapsed_us, US)
    if k < 0 or not (start <= el <= end):
        return {'violated': False, 'observed': dict(obs, note='n outside its availability window')}
    r = _try(rep2, xt, n, None)
    ok = 'mod_segment' in r and 1 <= r['mod_segment'] <= rep.num_media_segments and r['num'] == n
    return {'violated': not ok, 'observed': dict(obs, n=n, window=[str(start), str(end)], result=r)}
