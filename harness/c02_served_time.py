"""C02 - served segments carry exactly the advertised time, number and duration.

The whole real MediaRequestBase.generate_media_segment runs on the fixture media: the real
parser reads the stored segment (concrete bytes), the fields it rewrites (tfdt, mfhd) become
symbolic terms of the clock / requested number, the real encoder writes them through the struct
model, and an independent box walker reads them back from the served bytes.
"""
from __future__ import annotations

from . import common
from . import timing_kernel as tk
from . import media_kernel as mk

PROPERTY = 'C02'
US = 1_000_000

ASSUMPTIONS = [
    'availabilityStartTime is the explicit instant 2024-01-01T00:00:00Z; now = AST + base + eps, eps any microsecond in two loops of the reference',
    'the media request uses the option values the manifest writes into the media URL (start, depth); leeway default',
] + mk.STUBS
OUTSIDE = ['representations without fixture media (synthetic layouts are covered at kernel level in C01/C06)',
           'HTTP layer']

Q_MEDIA = [('bbb_v7', 'bbb_v7'), ('bbb_a1', 'bbb_v7'), ('bbb_t1', 'bbb_v7')]
T_MEDIA = Q_MEDIA + [('bbb_v6', 'bbb_v7'), ('bbb_a2', 'bbb_v7'), ('tears_v1', 'tears_v1'), ('tears_a1', 'tears_v1')]
Q_BASES = ['65s', '1h', 'x32', '1y']
T_BASES = ['65s', '10min', '1h', '1d-20s', '30d', 'x32', '1y', '54y']


def bounds(tier):
    return {'media(rep,reference)': Q_MEDIA if tier == 'quick' else T_MEDIA,
            'base_instants': Q_BASES if tier == 'quick' else T_BASES,
            'clock_window': 'two loops of the reference, every microsecond',
            'timeline_depth_s': [1, 20] if tier == 'quick' else [1, 60], 'number_depth_s': [0, 1800],
            'x32': 'per-representation instant at which baseMediaDecodeTime crosses 2**32'}


def OBLIGATIONS(tier):
    return ['C02.time.tfdt', 'C02.time.dur', 'C02.gapless', 'C02.number.seq', 'C02.number.tfdt',
            'C02.align', 'C02.served']


def _window_us(ref_name):
    r = common.ref_tuple(ref_name)
    return 2 * (-(-r['media_duration'] * US // r['timescale']))


def _clock(sx, rep_name, ref_name, base):
    eps = sx.int('eps_us', 0, _window_us(ref_name) - 1)
    elapsed_us = tk.base_seconds(base, rep_name) * US + eps
    return tk.now_from_elapsed_us(elapsed_us), elapsed_us


def _served_fields(data, rep):
    """independent read-back: (sequence_number, tfdt version, tfdt, total sample duration)"""
    root = mk.Root(data)
    moof = root.find('moof')
    seq = mk.read_mfhd(moof.find('mfhd'))
    traf = moof.find('traf')
    v, tfdt = mk.read_tfdt(traf.find('tfdt'))
    tfhd = mk.read_tfhd(traf.find('tfhd'))
    trun = mk.read_trun(traf.find('trun'))
    # ISO/IEC 14496-12 8.8.7: sample duration from trun, else tfhd default, else the trex default
    dflt = tfhd.get('default_sample_duration')
    if dflt is None:
        dflt = _trex_default_duration(rep)
    total = 0
    for s in trun['samples']:
        total = total + s.get('duration', dflt)
    return seq, v, tfdt, total


_TREX = {}


def _trex_default_duration(rep):
    """default_sample_duration of the track's trex box in the stored init segment"""
    name = rep.id
    if name not in _TREX:
        import os
        j = common.layouts()[name]
        val = 0
        if name in mk.MEDIA:
            seg = j['segments'][0]
            with open(os.path.join(common.FIX, mk.MEDIA[name][0]), 'rb') as f:
                f.seek(seg['pos'])
                init = f.read(seg['size'])
            trex = mk.Root(init).find('moov.mvex.trex')
            if trex is not None:
                p = trex.start + trex.hdr + 4 + 4 + 4        # version/flags, track_ID, default_sample_description_index
                val = mk._u(init, p, 4)
        _TREX[name] = val
    return _TREX[name]


def _media_options(mt, timeline):
    opts = mk.real_options('live', {}, availabilityStartTime=mt.availabilityStartTime,
                           timeShiftBufferDepth=mt.timeShiftBufferDepth)
    opts.update(segmentTimeline=timeline)
    return opts


def _ref_tc(rep, ref_name):
    r = common.ref_tuple(ref_name)
    return r['media_duration'] * rep.timescale // r['timescale']


def h_time(sx, rep_name, ref_name, base, depth_max):
    from pysx.core import sx_and, sx_divmod
    now, elapsed_us = _clock(sx, rep_name, ref_name, base)
    depth = sx.int('depth', 1, depth_max)
    mt, _ = tk.manifest_timing(now, ref_name, depth)
    rep = common.make_rep(rep_name)
    rep.set_dash_timing(mt)
    entries = tk.expand_timeline(rep.generateSegmentTimeline())
    if not entries:
        return
    j = sx.int('entry', 0, len(entries) - 1)
    j = j.concrete('entry') if not isinstance(j, int) else j
    t, d, mod = entries[j]
    ts = rep.timescale
    sx.assume((t + d) * US <= elapsed_us * ts, 'timeline entries whose end is not later than now')
    resp = mk.run_segment_symbolic(rep_name, ref_name, now, _media_options(mt, True), None, t)
    det = {'t': t, 'd': d, 'entry': j, 'elapsed_us': elapsed_us, 'depth': depth}
    if not (isinstance(resp, tuple) and len(resp) == 3 and resp[1] == 200):
        sx.fail('C02.served', detail=dict(det, response=str(resp)[:100]))
        return
    sx.prove(True, 'C02.served')
    seq, v, tfdt, total = _served_fields(resp[0], rep)
    det.update(tfdt=tfdt, tfdt_version=v, sample_duration_total=total)
    sx.prove(tfdt == t, 'C02.time.tfdt', detail=det)
    # known finding (known_findings.json): the last stored segment of a loop is advertised with
    # d + drift (drift = reference duration - own duration) but served with its stored samples
    n_seg = rep.num_media_segments
    in_region = ((mod - 1) % n_seg) + 1 == n_seg and _ref_tc(rep, ref_name) != rep.mediaDuration
    suffix = '@drift_last_segment' if in_region else ''
    sx.prove(total == d, 'C02.time.dur' + suffix, detail=det)
    if j + 1 < len(entries):
        sx.prove(tfdt + total == entries[j + 1][0], 'C02.gapless' + suffix,
                 detail=dict(det, next_t=entries[j + 1][0]))
    else:
        sx.prove(True, 'C02.gapless')
    # source position = presentation time modulo the reference duration (own timescale)
    ref_tc = _ref_tc(rep, ref_name)
    src = common.layouts()[rep_name]
    q, r = sx_divmod(tfdt, ref_tc)
    stored_start = None
    sx.prove(_is_stored_start(rep, r, rep.start_time), 'C02.align', detail=dict(det, pos_in_loop=r, loops=q))
    sx.note('expect', {'tfdt': tfdt, 'seq': seq, 'total': total})


def _is_stored_start(rep, r, start_time):
    """r (position inside the current loop of the reference) is the stored decode time of one of
    the representation's segments (relative to its first decode time)"""
    from pysx.core import sx_or
    conds = []
    for seg in rep.segments[1:]:
        conds.append(r == seg.start + start_time)
    return sx_or(*conds)


def _number_range(rep_name, ref_name, base, depth_max):
    j = common.layouts()[rep_name]
    ts, d, sn = j['timescale'], j['segment_duration'], j.get('start_number', 1)
    lo_el = tk.base_seconds(base, rep_name) * US
    hi_el = lo_el + _window_us(ref_name)
    k_hi = hi_el * ts // (d * US)
    k_lo = max(0, (lo_el - depth_max * US) * ts // (d * US) - 3)
    return sn + k_lo, sn + k_hi + 1


def h_number(sx, rep_name, ref_name, base, depth_max):
    from pysx.core import sx_and, sx_divmod
    now, elapsed_us = _clock(sx, rep_name, ref_name, base)
    depth = sx.int('depth', 0, depth_max)
    mt, _ = tk.manifest_timing(now, ref_name, depth)
    rep = common.make_rep(rep_name)
    ts, d, sn = rep.timescale, rep.segment_duration, rep.start_number
    tsbd = mt.timeShiftBufferDepth
    nlo, nhi = _number_range(rep_name, ref_name, base, depth_max)
    n = sx.int('n', nlo, nhi)
    k = n - sn
    A = elapsed_us * ts
    sx.assume(k >= 0)
    sx.assume((k + 1) * d * US <= A, 'segment availability start time <= now')
    sx.assume(A <= (k + 2) * d * US + tsbd * US * ts, 'now <= segment availability end time')
    resp = mk.run_segment_symbolic(rep_name, ref_name, now, _media_options(mt, False), n, None)
    det = {'n': n, 'elapsed_us': elapsed_us, 'depth': depth}
    if not (isinstance(resp, tuple) and len(resp) == 3 and resp[1] == 200):
        sx.fail('C02.served', detail=dict(det, response=str(resp)[:100]))
        return
    sx.prove(True, 'C02.served')
    seq, v, tfdt, total = _served_fields(resp[0], rep)
    det.update(tfdt=tfdt, seq=seq, tfdt_version=v)
    sx.prove(seq == n, 'C02.number.seq', detail=det)
    # |tfdt - (n - startNumber) * duration| <= duration/2 + |drift| * (loops + 1)
    ref_tc = _ref_tc(rep, ref_name)
    drift = abs(ref_tc - rep.mediaDuration)
    loops, r = sx_divmod(tfdt, ref_tc)
    want = k * d
    # segments are not all of the average duration: allow the largest deviation of a stored
    # segment start from its nominal position i*d inside one loop
    dev = max(abs(seg.start - i * d) for i, seg in enumerate(rep.segments[1:]))
    tol2 = d + 2 * (drift * (loops + 1) + dev)        # doubled, to stay in integers
    diff = tfdt - want
    sx.prove(sx_and(2 * diff <= tol2, -2 * diff <= tol2), 'C02.number.tfdt',
             detail=dict(det, want=want, loops=loops, drift=drift, layout_deviation=dev))
    sx.prove(_is_stored_start(rep, r, rep.start_time), 'C02.align', detail=dict(det, pos_in_loop=r, loops=loops))
    sx.note('expect', {'tfdt': tfdt, 'seq': seq, 'total': total})


def h_align(sx, rep_a, rep_b, ref_name, base):
    """two representations of one stream requested by $Number$ for the same presentation
    instant: their source positions differ by at most two (largest) segment durations + 0.1 s."""
    from pysx.core import sx_and, sx_divmod
    now, elapsed_us = _clock(sx, rep_a, ref_name, base)
    mt, _ = tk.manifest_timing(now, ref_name, 60)
    # presentation instant p (microseconds since AST), inside the time-shift window
    p = sx.int('p_us', max(0, tk.base_seconds(base, rep_a) * US - 50 * US),
               tk.base_seconds(base, rep_a) * US + _window_us(ref_name))
    sx.assume(p <= elapsed_us - 20 * US)
    sx.assume(p >= elapsed_us - 50 * US)
    pos = {}
    for name in (rep_a, rep_b):
        rep = common.make_rep(name)
        ts, d, sn = rep.timescale, rep.segment_duration, rep.start_number
        # the client picks the segment number covering p: floor(p * ts / (d * 1e6)) + startNumber
        k, _ = sx_divmod(p * ts, d * US)
        n = k + sn
        resp = mk.run_segment_symbolic(name, ref_name, now, _media_options(mt, False), n, None)
        if not (isinstance(resp, tuple) and len(resp) == 3 and resp[1] == 200):
            sx.fail('C02.served', detail={'rep': name, 'n': n, 'response': str(resp)[:100]})
            return
        seq, v, tfdt, total = _served_fields(resp[0], rep)
        ref_tc = _ref_tc(rep, ref_name)
        loops, r = sx_divmod(tfdt, ref_tc)
        pos[name] = (r, ts, loops, tfdt, max(s.duration for s in rep.segments[1:]))
    (ra, tsa, la, ta, da), (rb, tsb, lb, tb, db) = pos[rep_a], pos[rep_b]
    # |ra/tsa - rb/tsb| <= max segment duration (seconds), unless the two sit either side of a loop wrap
    lhs = ra * tsb - rb * tsa
    # the numbers were derived from nominal durations: each served segment starts within half a
    # nominal segment (plus the per-loop drift correction, < 0.1 s) of its presentation time, so
    # two of them are at most one largest segment + two halves + drift apart
    lim = 2 * max(da * tsb, db * tsa) + (tsa * tsb) // 10
    same_loop = la == lb
    sx.prove(sx_and(sx_and(lhs <= lim, -lhs <= lim) if same_loop else
                    sx_and(la - lb <= 1, lb - la <= 1)),
             'C02.align', detail={'a': {'pos': ra, 'loops': la, 'tfdt': ta}, 'b': {'pos': rb, 'loops': lb, 'tfdt': tb},
                                  'p_us': p})


def instances(tier):
    media = Q_MEDIA if tier == 'quick' else T_MEDIA
    bases = Q_BASES if tier == 'quick' else T_BASES
    tdepth = 20 if tier == 'quick' else 60
    out = []
    for rep_name, ref_name in media:
        for base in bases:
            out.append({'name': f'time[{rep_name}/{ref_name},{base}]', 'fn': h_time, 'weight': 4,
                        'params': {'rep_name': rep_name, 'ref_name': ref_name, 'base': base, 'depth_max': tdepth},
                        'opts': {'max_paths': 50000, 'max_decisions': 4000, 'fork_limit': 200}})
            out.append({'name': f'number[{rep_name}/{ref_name},{base}]', 'fn': h_number, 'weight': 1,
                        'params': {'rep_name': rep_name, 'ref_name': ref_name, 'base': base, 'depth_max': 1800},
                        'opts': {'max_paths': 50000, 'max_decisions': 4000}})
    pairs = [('bbb_v7', 'bbb_a1'), ('bbb_v7', 'bbb_t1')] if tier == 'quick' else \
        [('bbb_v7', 'bbb_a1'), ('bbb_v7', 'bbb_t1'), ('bbb_a1', 'bbb_a2'), ('tears_v1', 'tears_a1')]
    for a, b in pairs:
        ref = 'tears_v1' if a.startswith('tears') else 'bbb_v7'
        for base in (['1h'] if tier == 'quick' else ['65s', '1h', '1y']):
            out.append({'name': f'align[{a},{b},{base}]', 'fn': h_align, 'weight': 3,
                        'params': {'rep_a': a, 'rep_b': b, 'ref_name': ref, 'base': base},
                        'opts': {'max_paths': 50000, 'max_decisions': 4000}})
    return out


# ---------------------------------------------------------------------------
# concrete side

def _real_ctx(params, inputs, rep_key='rep_name'):
    rep_name = params[rep_key]
    elapsed_us = tk.base_seconds(params['base'], rep_name) * US + inputs['eps_us']
    now = tk.now_from_elapsed_us(elapsed_us)
    mt, _ = tk.manifest_timing(now, params['ref_name'], inputs.get('depth', 60))
    return now, elapsed_us, mt


def _real_fetch(rep_name, ref_name, now, mt, n, t):
    body, status, headers = mk.run_segment_real(rep_name, ref_name, now, _media_options(mt, t is not None), n, t)
    if status != 200:
        return {'status': status}
    rep = common.make_rep(rep_name)
    seq, v, tfdt, total = _served_fields(body, rep)
    return {'status': 200, 'seq': seq, 'tfdt': tfdt, 'total': total, 'version': v}


def observe(instance, params, inputs):
    if instance.startswith('align['):
        return None
    now, elapsed_us, mt = _real_ctx(params, inputs)
    if instance.startswith('time['):
        rep = common.make_rep(params['rep_name'])
        rep.set_dash_timing(mt)
        entries = tk.expand_timeline(rep.generateSegmentTimeline())
        t, d, mod = entries[inputs['entry']]
        r = _real_fetch(params['rep_name'], params['ref_name'], now, mt, None, t)
    else:
        r = _real_fetch(params['rep_name'], params['ref_name'], now, mt, inputs['n'], None)
    if r['status'] != 200:
        return r
    return {'tfdt': r['tfdt'], 'seq': r['seq'], 'total': r['total']}


def replay(case):
    from fractions import Fraction
    params, inputs, inst, label = case['params'], case['inputs'], case['instance'], case['label']
    if inst.startswith('align['):
        now, elapsed_us, mt = _real_ctx(params, inputs, 'rep_a')
        p = inputs['p_us']
        res = {}
        for name in (params['rep_a'], params['rep_b']):
            rep = common.make_rep(name)
            n = p * rep.timescale // (rep.segment_duration * US) + rep.start_number
            r = _real_fetch(name, params['ref_name'], now, mt, n, None)
            if r['status'] != 200:
                return {'violated': True, 'observed': {'rep': name, 'n': n, 'result': r}}
            ref_tc = _ref_tc(rep, params['ref_name'])
            res[name] = (Fraction(r['tfdt'] % ref_tc, rep.timescale), r['tfdt'] // ref_tc,
                         Fraction(max(s.duration for s in rep.segments[1:]), rep.timescale))
        (pa, la, da), (pb, lb, db) = res[params['rep_a']], res[params['rep_b']]
        bad = abs(pa - pb) > max(da, db) if la == lb else abs(la - lb) > 1
        return {'violated': bad, 'observed': {k: [str(v[0]), v[1]] for k, v in res.items()}}
    now, elapsed_us, mt = _real_ctx(params, inputs)
    rep = common.make_rep(params['rep_name'])
    rep.set_dash_timing(mt)
    ts = rep.timescale
    ref_tc = _ref_tc(rep, params['ref_name'])
    starts = {seg.start + rep.start_time for seg in rep.segments[1:]}
    obs = {'now': now.isoformat(), 'elapsed_s': str(Fraction(elapsed_us, US)), 'depth': inputs.get('depth')}
    if inst.startswith('time['):
        entries = tk.expand_timeline(rep.generateSegmentTimeline())
        order = [inputs['entry']] + [i for i in range(len(entries)) if i != inputs['entry']]
        for i in order:
            if i >= len(entries):
                continue
            t, d, mod = entries[i]
            if Fraction(t + d, ts) > Fraction(elapsed_us, US):
                continue
            r = _real_fetch(params['rep_name'], params['ref_name'], now, mt, None, t)
            bad = []
            n_seg = rep.num_media_segments
            in_region = ((mod - 1) % n_seg) + 1 == n_seg and ref_tc != rep.mediaDuration
            suffix = '@drift_last_segment' if in_region else ''
            if r['status'] != 200:
                bad.append('C02.served')
            else:
                if r['tfdt'] != t:
                    bad.append('C02.time.tfdt')
                if r['total'] != d:
                    bad.append('C02.time.dur' + suffix)
                if i + 1 < len(entries) and r['tfdt'] + r['total'] != entries[i + 1][0]:
                    bad.append('C02.gapless' + suffix)
                if (r['tfdt'] % ref_tc) not in starts:
                    bad.append('C02.align')
            if label in bad:
                return {'violated': True, 'observed': dict(obs, entry=i, t=t, d=d, result=r, violated_obligations=bad)}
        return {'violated': False, 'observed': obs}
    n = inputs['n']
    k = n - rep.start_number
    d = rep.segment_duration
    start = Fraction((k + 1) * d, ts)
    if k < 0 or not (start <= Fraction(elapsed_us, US) <= start + mt.timeShiftBufferDepth + Fraction(d, ts)):
        return {'violated': False, 'observed': dict(obs, note='outside the availability window')}
    r = _real_fetch(params['rep_name'], params['ref_name'], now, mt, n, None)
    bad = []
    if r['status'] != 200:
        bad.append('C02.served')
    else:
        if r['seq'] != n:
            bad.append('C02.number.seq')
        drift = abs(ref_tc - rep.mediaDuration)
        loops = r['tfdt'] // ref_tc
        dev = max(abs(seg.start - i * d) for i, seg in enumerate(rep.segments[1:]))
        if 2 * abs(r['tfdt'] - k * d) > d + 2 * (drift * (loops + 1) + dev):
            bad.append('C02.number.tfdt')
        if (r['tfdt'] % ref_tc) not in starts:
            bad.append('C02.align')
    return {'violated': label in bad, 'observed': dict(obs, n=n, result=r, violated_obligations=bad)}
