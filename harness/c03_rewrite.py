"""C03 - rewritten media segments keep their payload and point at it correctly.

The real MediaRequestBase.generate_media_segment (load_fragment, tfdt/mfhd rewrite, tfdt
synthesis, sidx removal, emsg insertion, DRM traf updates, PIFF cloning, re-encode with the
trun/saio/tfhd fix-ups) runs on a stored fixture segment whose *content* bytes are solver
variables (structure discovered by a pinned pre-pass, harness/mp4_kernel.py).  An independent
box walker then checks nesting, payload identity and the offsets on the served bytes.
"""
from __future__ import annotations

from . import common
from . import timing_kernel as tk
from . import media_kernel as mk
from . import mp4_kernel as mkx

PROPERTY = 'C03'
US = 1_000_000

ASSUMPTIONS = [
    'stored segment: structure of the fixture segment, every other byte arbitrary, sum of trun sample sizes == mdat payload length (the indexing invariant)',
    'at most 600 symbolic content bytes per segment; mdat payload beyond its first 48 bytes stays concrete',
    'clock: fixed instants (1 h, and the instant where baseMediaDecodeTime crosses 2**32); the time/number arithmetic itself is C01/C02',
    'option values arrive through the real option parser (OptionsRepository.convert_cgi_options)',
] + mk.STUBS
OUTSIDE = ['video corruption (vcorrupt) rewriting NAL payloads', 'segment shapes not among the fixtures',
           'key material lookups (database)']

# (media, reference, option args)
Q_CASES = {
    'clear-video': ('bbb_v7', 'bbb_v7', {}),
    'clear-audio': ('bbb_a1', 'bbb_v7', {}),
    'clear-text': ('bbb_t1', 'bbb_v7', {}),
    'enc-audio-clearkey': ('bbb_a1_enc', 'bbb_v7', {'drm': 'clearkey'}),
    'enc-audio-playready': ('bbb_a1_enc', 'bbb_v7', {'drm': 'playready'}),
    'enc-audio-playready-piff': ('bbb_a1_enc', 'bbb_v7', {'drm': 'playready', 'playready__piff': '1'}),
    'enc-audio-playready-v1': ('bbb_a1_enc', 'bbb_v7', {'drm': 'playready', 'playready__version': '1.0'}),
    'enc-audio-all-piff-saiobug': ('bbb_a1_enc', 'bbb_v7', {'drm': 'all', 'playready__piff': '1', 'bugs': 'saio'}),
    'enc-audio-marlin': ('bbb_a1_enc', 'bbb_v7', {'drm': 'marlin'}),
    'enc-video-clearkey-ping': ('bbb_v7_enc', 'bbb_v7', {'drm': 'clearkey', 'events': 'ping', 'ping__interval': '100'}),
    'enc-video-playready-nopiff-scte35': ('bbb_v7_enc', 'bbb_v7', {'drm': 'playready', 'playready__piff': '0',
                                                                   'events': 'scte35', 'scte35__interval': '200'}),
    'video-ping': ('bbb_v7', 'bbb_v7', {'events': 'ping', 'ping__count': '0', 'ping__interval': '100'}),
    'video-scte35': ('bbb_v7', 'bbb_v7', {'events': 'scte35', 'scte35__interval': '200'}),
    # PIFF box and several emsg boxes in front of the moof at once (saio offset fix-up from a negative provisional value)
    'enc-video-ping-piff': ('bbb_v7_enc', 'bbb_v7', {'drm': 'playready', 'playready__piff': '1', 'events': 'ping',
                                                     'ping__interval': '100'}),
}
T_CASES = dict(Q_CASES, **{
    'enc-video-playready-piff': ('bbb_v7_enc', 'bbb_v7', {'drm': 'playready', 'playready__piff': '1'}),
    'enc-video-all': ('bbb_v7_enc', 'bbb_v7', {'drm': 'all'}),
    'enc-video-ping-piff': ('bbb_v7_enc', 'bbb_v7', {'drm': 'playready', 'playready__piff': '1', 'events': 'ping',
                                                     'ping__interval': '100'}),
    'enc-audio-playready-v3-piff-saiobug': ('bbb_a1_enc', 'bbb_v7', {'drm': 'playready', 'playready__version': '3.0',
                                                                     'playready__piff': '1', 'bugs': 'saio'}),
    'tears-audio': ('tears_a1', 'tears_v1', {}),
})
BASES = ['1h', 'x32']
MAX_SYMBOLIC = 600


def bounds(tier):
    return {'cases': sorted(Q_CASES if tier == 'quick' else T_CASES), 'base_instants': BASES,
            'segments': 'the stored segment selected by the clock (one per base instant)',
            'max_symbolic_bytes': MAX_SYMBOLIC}


def OBLIGATIONS(tier):
    return ['C03.nest', 'C03.mdat', 'C03.trun', 'C03.saio', 'C03.emsg', 'C03.exc', 'C03.served']


def _instant(media, base):
    """concrete (now, requested number) whose request is inside the live window"""
    el_us = tk.base_seconds(base, media) * US + 7 * US + 123456
    j = common.layouts()[media]
    n = j.get('start_number', 1) + (el_us - 30 * US) * j['timescale'] // (j['segment_duration'] * US)
    return tk.now_from_elapsed_us(el_us), n


class SegmentWindow:
    """raw file stand-in that only holds one stored segment (absolute file positions)"""

    def __init__(self, pos0, data):
        self.pos0 = pos0
        self.data = data
        self.p = pos0
        self.closed = False

    def seek(self, pos, whence=0):
        if whence == 0:
            self.p = pos
        elif whence == 1:
            self.p += pos
        else:
            self.p = self.pos0 + len(self.data) + pos
        return self.p

    def tell(self):
        return self.p

    def read(self, n=-1):
        a = self.p - self.pos0
        if a < 0:
            raise IOError('read before the stored segment window')
        b = len(self.data) if n is None or n < 0 else min(len(self.data), a + n)
        out = self.data[a:b]
        self.p = self.pos0 + b
        return out

    def close(self):
        self.closed = True


class OneSegmentMedia(mk.MediaFileStandIn):
    """media file whose stored segment k is replaced by the given (half-symbolic) bytes"""

    def __init__(self, name, k, seg_bytes):
        super().__init__(name)
        self.k = k
        self.seg_bytes = seg_bytes

    def open_file(self, start=None, buffer_size=4096):
        import contextlib
        seg = self.representation.segments[self.k]

        @contextlib.contextmanager
        def cm():
            if start == seg.pos:
                yield SegmentWindow(seg.pos, self.seg_bytes)
            else:
                raise IOError(f'unexpected segment offset {start} (symbolic segment is at {seg.pos})')
        return cm()


def _stored_segment(media, k):
    path = mk.MEDIA[media][0]
    j = common.layouts()[media]
    seg = j['segments'][k]
    with open(mkx.os.path.join(common.FIX, path), 'rb') as f:
        f.seek(seg['pos'])
        return f.read(seg['size'])


def _options(args, now, media):
    opts = mk.real_options('live', args, availabilityStartTime=tk.ast_real(), timeShiftBufferDepth=60)
    opts.update(segmentTimeline=False)
    return opts


def _mod_segment_for(media, ref, now, n, args):
    """which stored segment the concrete request addresses (real code, concrete)"""
    from dashlive.mpeg.dash.timing import DashTiming
    rep = common.make_rep(media)
    t = DashTiming(now, common.make_ref(ref), _options(args, now, media))
    rep.set_dash_timing(t)
    mod, origin, num = tk.media_index(rep, t, n, None)
    return mod


def _skip_ranges(data):
    skip = []
    for b in mk.walk(data):
        if b.type == 'mdat' and b.size > b.hdr + 48:
            skip.append((b.start + b.hdr + 48, b.end))
    return skip


def _sum_sizes(trun, tfhd):
    total = 0
    for s in trun['samples']:
        total = total + s.get('size', tfhd.get('default_sample_size', 0))
    return total


def h_segment(sx, case, base, tier):
    from pysx.core import sx_and, sx_or
    cases = T_CASES if tier == 'thorough' else Q_CASES
    media, ref, args = cases[case]
    now, n = _instant(media, base)
    k = _mod_segment_for(media, ref, now, n, args)
    stored = _stored_segment(media, k)
    skip = _skip_ranges(stored)
    ev_sym = 'events' in args

    def ops(data):
        mf = OneSegmentMedia(media, k, data)
        resp = mk.run_segment_symbolic(media, ref, now, _options(args, now, media), n, None, media=mf)
        out = resp[0]
        mk.Root(out)
        _check(None, data, out, media, args, discover=True)
        from dashlive.mpeg import mp4
        from pysx import iomodel
        kw = {'iv_size': 8} if '_enc' in media else {}
        t = mp4.Mp4Atom.load(iomodel.SxBufferedReader(iomodel.SxBytesIO(data)),
                             options=mp4.Options(mode='r', lazy_load=False, **kw), use_wrapper=True)
        return mkx.atom_fields(t)
    structural = mkx.discover_structural(('c03', case, base), stored, ops, skip_ranges=skip)
    buf, symidx = mkx.symbolise(sx, stored, structural, max_symbolic=MAX_SYMBOLIC, skip_ranges=skip)
    sx.note('symbolic_bytes', len(symidx))
    opts = _options(args, now, media)
    if ev_sym:
        # the event schedule start is symbolic as well (which emsg boxes are inserted)
        prefix = 'ping' if args['events'] == 'ping' else 'scte35'
        start = sx.int('event_start', 0, 400000)
        getattr(opts, prefix).add_field('start', start)
    mf = OneSegmentMedia(media, k, buf)
    try:
        resp = mk.run_segment_symbolic(media, ref, now, opts, n, None, media=mf)
    except Exception as e:
        sx.fail('C03.exc', detail={'raised': type(e).__name__, 'msg': str(e)[:160]})
        return
    sx.prove(True, 'C03.exc')
    if not (isinstance(resp, tuple) and len(resp) == 3 and resp[1] == 200):
        sx.fail('C03.served', detail={'response': str(resp)[:100]})
        return
    sx.prove(True, 'C03.served')
    _check(sx, buf, resp[0], media, args, discover=False)
    sx.note('expect', {'out_len': len(resp[0])})


def _check(sx, stored, out, media, args, discover):
    """walker-based obligations on the served bytes (also run pinned during discovery)"""
    from pysx.core import sx_and
    try:
        root = mk.Root(out)
        sroot = mk.Root(stored)
    except ValueError as e:
        if sx is not None:
            sx.fail('C03.nest', detail={'walker': str(e)})
        return
    if sx is not None:
        sx.prove(True, 'C03.nest')
    moof, mdat = root.find('moof'), root.find('mdat')
    smdat = sroot.find('mdat')
    smoof = sroot.find('moof')
    top = [c.type for c in root.children]
    conds_shape = moof is not None and mdat is not None and top.count('moof') == 1 and top.count('mdat') == 1
    # payload identity
    payload_ok = False
    if conds_shape:
        payload_ok = (mdat.size - mdat.hdr == smdat.size - smdat.hdr) and \
            mkx.bytes_equal(out[mdat.start + mdat.hdr:mdat.end], stored[smdat.start + smdat.hdr:smdat.end])
    if sx is not None:
        sx.prove(sx_and(conds_shape, payload_ok), 'C03.mdat', detail={'top_level': top})
    if not conds_shape:
        return
    traf = moof.find('traf')
    tfhd = mk.read_tfhd(traf.find('tfhd'))
    trun = mk.read_trun(traf.find('trun'))
    stfhd = mk.read_tfhd(smoof.find('traf.tfhd'))
    strun = mk.read_trun(smoof.find('traf.trun'))
    if sx is not None and not discover:
        # indexing invariant of the stored segment (assumed): sample sizes sum to the payload length
        sx.assume(_sum_sizes(strun, stfhd) == smdat.size - smdat.hdr,
                  'stored segment: sum of trun sample sizes == mdat payload length')
    base = tfhd['base_data_offset'] if (tfhd['flags'] & 1) else moof.start
    first = base + trun.get('data_offset', 0)
    if sx is not None:
        sx.prove(sx_and((trun['flags'] & 1) == 1 or (tfhd['flags'] & 1) == 1,
                        first == mdat.start + mdat.hdr,
                        _sum_sizes(trun, tfhd) == mdat.size - mdat.hdr,
                        trun['sample_count'] == strun['sample_count']),
                 'C03.trun', detail={'base': base, 'data_offset': trun.get('data_offset'),
                                     'payload_start': mdat.start + mdat.hdr})
    else:
        _sum_sizes(trun, tfhd)
    # encrypted: saio -> first senc sample entry, senc and trun list the same samples
    senc = traf.find('senc')
    saio = traf.find('saio')
    if senc is not None and saio is not None:
        iv = 8
        se = mk.read_senc(senc, iv)
        offs = mk.read_saio(saio)
        stale_ok = 'saio' in args.get('bugs', '')
        if sx is not None:
            good = sx_and(len(offs) == 1, offs[0] + base == se['first_entry_pos']) if len(offs) == 1 else False
            same = se['sample_count'] == trun['sample_count']
            if stale_ok:
                # bug compatibility: only the offset may be stale
                sx.prove(same, 'C03.saio', detail={'offsets': offs, 'first_entry': se['first_entry_pos'], 'bug': 'saio'})
            else:
                sx.prove(sx_and(good, same), 'C03.saio',
                         detail={'offsets': offs, 'first_entry': se['first_entry_pos'], 'base': base})
        # a PIFF box, when present, carries the same sample entries as senc
        piff = [c for c in traf.children if c.type == 'uuid']
        if piff and sx is not None:
            pe = mk.read_senc(piff[0], iv)
            a = out[pe['first_entry_pos']:pe['end']]
            b = out[se['first_entry_pos']:se['end']]
            sx.prove(sx_and(pe['sample_count'] == se['sample_count'], len(a) == len(b) and mkx.bytes_equal(a, b)),
                     'C03.saio', detail={'what': 'PIFF sample entries equal senc sample entries'})
    elif sx is not None and '_enc' not in media:
        sx.prove(True, 'C03.saio')
    # emsg boxes (if any) precede moof; nothing but emsg/moof/mdat(/styp) at top level; sidx removed
    if sx is not None:
        idx_moof = top.index('moof')
        emsg_ok = all(t == 'emsg' for t in top[:idx_moof] if t not in ('styp',)) and \
            all(t != 'emsg' for t in top[idx_moof:]) and 'sidx' not in top
        if 'events' not in args:
            emsg_ok = emsg_ok and 'emsg' not in top
        sx.prove(emsg_ok, 'C03.emsg', detail={'top_level': top})


def instances(tier):
    cases = Q_CASES if tier == 'quick' else T_CASES
    out = []
    for case in cases:
        for base in BASES:
            if tier == 'quick' and base == 'x32' and cases[case][0] == 'bbb_v7_enc':
                continue     # 90 kB segments: the 2**32 crossing of these cases runs in the thorough tier
            out.append({'name': f'segment[{case},{base}]', 'fn': h_segment, 'weight': 2,
                        'params': {'case': case, 'base': base, 'tier': tier},
                        'opts': {'max_paths': 4000, 'max_decisions': 20000, 'query_timeout_ms': 60000}})
    return out


# ---------------------------------------------------------------------------
# concrete side

class _RealOneSegment(mk.MediaFileStandIn):
    def __init__(self, name, k, seg_bytes):
        super().__init__(name)
        self.k = k
        self.seg_bytes = seg_bytes

    def open_file(self, start=None, buffer_size=4096):
        import contextlib
        seg = self.representation.segments[self.k]

        @contextlib.contextmanager
        def cm():
            yield SegmentWindow(seg.pos, self.seg_bytes)
        return cm()


class _ConcreteProbe:
    """collects obligation outcomes when _check runs on concrete bytes"""

    def __init__(self):
        self.bad = []

    def prove(self, cond, label, detail=None):
        if not cond:
            self.bad.append((label, detail))

    def fail(self, label, detail=None):
        self.bad.append((label, detail))

    def assume(self, cond, text=None):
        if not cond:
            raise _Vacuous()


class _Vacuous(Exception):
    pass


def _real_run(params, inputs):
    cases = T_CASES if params['tier'] == 'thorough' else Q_CASES
    media, ref, args = cases[params['case']]
    now, n = _instant(media, params['base'])
    k = _mod_segment_for(media, ref, now, n, args)
    stored = bytearray(_stored_segment(media, k))
    for key, v in inputs.items():
        if key.startswith('b['):
            stored[int(key[2:-1])] = v
    stored = bytes(stored)
    opts = _options(args, now, media)
    if 'events' in args:
        prefix = 'ping' if args['events'] == 'ping' else 'scte35'
        getattr(opts, prefix).add_field('start', inputs.get('event_start', 0))
    mf = _RealOneSegment(media, k, stored)
    body, status, headers = mk.run_segment_real(media, ref, now, opts, n, None, media=mf)
    return stored, body, status, media, args


def observe(instance, params, inputs):
    try:
        stored, body, status, media, args = _real_run(params, inputs)
    except Exception as e:
        return {'raised': type(e).__name__}
    return {'out_len': len(body)}


def replay(case):
    params, inputs, label = case['params'], case['inputs'], case['label']
    try:
        stored, body, status, media, args = _real_run(params, inputs)
    except Exception as e:
        import traceback
        return {'violated': label in ('C03.exc', 'C03.served'),
                'observed': {'raised': type(e).__name__, 'msg': str(e)[:200], 'tb': traceback.format_exc()[-500:]}}
    if status != 200:
        return {'violated': label == 'C03.served', 'observed': {'status': status}}
    probe = _ConcreteProbe()
    try:
        _check(probe, stored, body, media, args, discover=False)
    except _Vacuous:
        return {'violated': False, 'observed': {'note': 'stored segment violates the assumed invariant'}}
    bad = [b for b in probe.bad if b[0] == label]
    return {'violated': bool(bad), 'observed': {'violated_obligations': [[b[0], str(b[1])[:300]] for b in probe.bad]}}
