"""C04 - ISO-BMFF parse/encode round-trips byte-exactly.

Concrete structure, symbolic content (harness/mp4_kernel.py): each fixture file is parsed once
with every byte pinned to discover the bytes that steer the parser (structure); all remaining
bytes become solver variables.  The real parser / encoder / lazy loader / JSON conversion then
run on that half-symbolic buffer and the obligations compare byte strings and field trees
term by term.
"""
from __future__ import annotations

from . import mp4_kernel as mkx
from . import media_kernel as mk

PROPERTY = 'C04'

FILES = {
    # name -> (fixture, byte limit, options kwargs)
    'moov': ('moov.mp4', None, {}),
    'enc-moov': ('enc-moov.mp4', None, {'iv_size': 8}),
    'hevc-moov': ('hevc-moov.mp4', None, {}),
    'eac3-moov': ('eac3-moov.mp4', None, {}),
    'enc-seg': ('bbb/bbb_a1_enc.mp4', 'segment:1', {'iv_size': 8}),
    'ebuttd': ('ebuttd.mp4', None, {}),
    'webvtt': ('webvtt.mp4', None, {}),
    'seg1': ('seg1.mp4', None, {}),
    'tseg': ('bbb/bbb_t1.mp4', 'segment:1', {}),
    # derived fixtures: a structural variant produced from a fixture by the library's own encoder
    'tseg-tfdt-v0': ('bbb/bbb_t1.mp4', 'segment:1', {}, 'tfdt-v0'),
    'tseg-tfhd-both': ('bbb/bbb_t1.mp4', 'segment:1', {}, 'tfhd-both'),
    'tseg-tfhd-all': ('bbb/bbb_t1.mp4', 'segment:1', {}, 'tfhd-all'),
    'tseg-trun-all': ('bbb/bbb_t1.mp4', 'segment:1', {}, 'trun-all'),
    'tseg-trun-first': ('bbb/bbb_t1.mp4', 'segment:1', {}, 'trun-first'),
    'moov-v1': ('moov.mp4', None, {}, 'headers-v1'),
    'emsg-boxes': ('moov.mp4', None, {}, 'emsg-boxes'),
    'aseg': ('bbb/bbb_a1.mp4', 'segment:1', {}),
    'aac-init': ('bbb/bbb_a1.mp4', 'segment:0', {}),
    'aac-esds-ocr': ('bbb/bbb_a1.mp4', 'segment:0', {}, 'esds-ocr'),
    'aac-esds-all': ('bbb/bbb_a1.mp4', 'segment:0', {}, 'esds-all'),
    'emsg': ('emsg.mp4', None, {}),
    'bbb_v7': ('bbb/bbb_v7.mp4', None, {}),
    'bbb_a1_enc': ('bbb/bbb_a1_enc.mp4', None, {'iv_size': 8}),
}
Q_FILES = ['moov', 'enc-moov', 'hevc-moov', 'eac3-moov', 'ebuttd', 'webvtt', 'tseg', 'aseg',
           'tseg-tfdt-v0', 'tseg-tfhd-both', 'tseg-tfhd-all', 'tseg-trun-all', 'tseg-trun-first', 'moov-v1',
           'emsg-boxes', 'aac-init', 'aac-esds-ocr', 'aac-esds-all']
# thorough tier: sized by wall time (whole multi-megabyte fixture files ran past 30 minutes)
T_FILES = Q_FILES + ['enc-seg', 'seg1', 'webvtt', 'emsg']
MAX_SYMBOLIC = 1500       # symbolic bytes per file (the first N content bytes; mdat tails stay concrete)

ASSUMPTIONS = [
    'legal values: every symbolic integer field is any value its encoder accepts (over-wide values must be refused with struct.error / bitstring.CreationError / OverflowError); FullBox flags are below 2**24',
    'well-formed trees: the box structure (sizes, types, versions, flags, counts, NUL-terminated strings) is that of the fixture files; every other byte is an arbitrary value',
    'at most %d content bytes per file are symbolic (large mdat payloads beyond that stay concrete)' % MAX_SYMBOLIC,
]
OUTSIDE = ['box structures that do not occur in the fixture files', 'non-ASCII text fields (kept concrete)',
           'values of structural fields other than the fixture ones (versions/flags variants are exercised where fixtures differ)']


def bounds(tier):
    return {'files': Q_FILES if tier == 'quick' else list(dict.fromkeys(T_FILES)), 'max_symbolic_bytes_per_file': MAX_SYMBOLIC,
            'edits': ['assign field', 'insert_child', 'append_child', 'remove_child', 'del child']}


def OBLIGATIONS(tier):
    return ['C04.f2b2f', 'C04.b2f2b', 'C04.lazy', 'C04.json', 'C04.size', 'C04.exc']


def _derive(data, kw, transform):
    """structural variant of a fixture, produced by the library's own encoder (same code in the
    symbolic and in the replay process)"""
    import io
    import sys
    from dashlive.mpeg import mp4
    if 'pysx.loader' in sys.modules:
        from pysx import iomodel
        src = iomodel.SxBufferedReader(iomodel.SxBytesIO(data))
    else:
        src = io.BufferedReader(io.BytesIO(data))
    t = mp4.Mp4Atom.load(src, options=mp4.Options(mode='r', lazy_load=False, **kw), use_wrapper=True)
    put = object.__setattr__
    if transform == 'tfdt-v0':
        tfdt = t.moof.traf.tfdt
        put(tfdt, 'version', 0)
        put(tfdt, 'base_media_decode_time', 12345)
    elif transform in ('tfhd-both', 'tfhd-all'):
        tfhd = t.moof.traf.tfhd
        flags = tfhd.flags | 0x000001
        if transform == 'tfhd-all':
            flags |= 0x02 | 0x08 | 0x10 | 0x20
            put(tfhd, 'sample_description_index', 1)
            put(tfhd, 'default_sample_duration', tfhd.default_sample_duration or 1000)
            put(tfhd, 'default_sample_size', tfhd.default_sample_size or 17)
            put(tfhd, 'default_sample_flags', tfhd.default_sample_flags or 0x10000)
        put(tfhd, 'flags', flags)
        put(tfhd, 'base_data_offset', 0)
    elif transform == 'trun-all':
        trun = t.moof.traf.trun
        # per-sample duration, size, flags and composition offset (first-sample-flags must not be
        # combined with per-sample flags, ISO/IEC 14496-12 8.8.8)
        put(trun, 'flags', trun.flags | 0x100 | 0x200 | 0x400 | 0x800)
        for i, s in enumerate(trun.samples):
            for nm, v in (('duration', 1000 + i), ('size', getattr(s, 'size', 0) or 10), ('flags', 0x10000 + i),
                          ('composition_time_offset', 3 * i)):
                if getattr(s, nm, None) is None:
                    s.add_field(nm, v)
            put(s, 'parent', trun)
    elif transform == 'trun-first':
        trun = t.moof.traf.trun
        put(trun, 'flags', (trun.flags | 0x4) & ~0x400)
        put(trun, 'first_sample_flags', 0x2000000)
    elif transform == 'headers-v1':
        for box in (t.moov.mvhd, t.moov.trak.tkhd, t.moov.trak.mdia.mdhd, t.sidx):
            put(box, 'version', 1)
    elif transform in ('esds-ocr', 'esds-all'):
        # ES_Descriptor with its optional fields present (ISO/IEC 14496-1 7.2.6.5)
        es = [d for d in _find_box(t, 'esds').descriptors if type(d).__name__ == 'ESDescriptor'][0]
        put(es, 'ocr_es_id', 9)
        if transform == 'esds-all':
            put(es, 'stream_dependence_flag', True)
            put(es, 'depends_on_es_id', 3)
            put(es, 'url', b'urn:x')
    elif transform == 'emsg-boxes':
        boxes = []
        for ver in (0, 1):
            kw2 = dict(version=ver, flags=0, scheme_id_uri='urn:example:2024', value='v%d' % ver, timescale=1000,
                       event_duration=200, event_id=7 + ver, data=b'payload%d' % ver)
            if ver == 0:
                kw2['presentation_time_delta'] = 33
            else:
                kw2['presentation_time'] = 1 << 34
            boxes.append(mp4.EventMessageBox(**kw2))
        return b''.join(b.encode() for b in boxes)
    else:
        raise KeyError(transform)
    return t.encode()


def _find_box(atom, atom_type):
    for c in (atom.children or []):
        if c.atom_type == atom_type:
            return c
        r = _find_box(c, atom_type)
        if r is not None:
            return r
    return None


_FILE_BYTES = {}


def file_bytes(name):
    """bytes of a (possibly derived) fixture"""
    hit = _FILE_BYTES.get(name)
    if hit is None:
        spec = FILES[name]
        hit = mkx.fixture_bytes(spec[0], spec[1])
        if len(spec) > 3 and spec[3]:
            hit = bytes(_derive(hit, spec[2], spec[3]))
        _FILE_BYTES[name] = hit
    return hit


def _options(kw, mode='r', lazy=False):
    from dashlive.mpeg import mp4
    return mp4.Options(mode=mode, lazy_load=lazy, **kw)


def _load(data, kw, mode='r', lazy=False):
    from dashlive.mpeg import mp4
    from pysx import iomodel
    src = iomodel.SxBufferedReader(iomodel.SxBytesIO(data))
    return mp4.Mp4Atom.load(src, options=_options(kw, mode, lazy), use_wrapper=True)


def _load_any(data, kw, mode='r', lazy=False):
    """_load for the symbolic process, the real loader in the replay process"""
    import sys
    if 'pysx.loader' in sys.modules:
        return _load(data, kw, mode, lazy)
    return _real_load(bytes(data), kw, mode, lazy)


def _force_lazy(atom, depth=0):
    """touch every lazily loaded child so that it is parsed"""
    from dashlive.mpeg import mp4
    kids = atom._children
    if kids is None:
        return
    for idx in range(len(kids)):
        c = kids[idx]
        if isinstance(c, mp4.LazyLoadedBox):
            c = c.lazy_load()
        _force_lazy(atom._children[idx], depth + 1)


def _refusals():
    import struct
    import bitstring
    return (struct.error, bitstring.CreationError, OverflowError)


def _pipeline(kw, with_json, parse_only=False):
    """the operations of the obligations, also used by the structural discovery pass.
    parse_only: what decides the *structure* of the parsed tree.  Bytes that steer only the
    encoder stay symbolic, so a value-dependent branch in an encoder is explored, not pinned."""
    def ops(data):
        t0 = _load(data, kw, 'r', False)
        f0 = mkx.atom_fields(t0)
        if parse_only:
            t2 = _load(data, kw, 'r', True)
            _force_lazy(t2)
            return f0
        b1 = t0.encode()
        t1 = _load(b1, kw, 'r', False)
        mkx.atom_fields(t1)
        t1.encode()
        t2 = _load(b1, kw, 'r', True)
        t2.encode()
        _force_lazy(t2)
        t2.encode()
        if with_json:
            from dashlive.mpeg import mp4
            try:
                for child in t1.children:
                    mp4.Mp4Atom.fromJSON(child.toJSON()).encode()
            except Exception:
                pass
        return f0
    return ops


def _candidate_ranges(data):
    """bytes that may become symbolic: everything except the tail of large mdat payloads"""
    skip = []
    try:
        for b in mk.walk(data):
            if b.type == 'mdat' and b.size > b.hdr + 48:
                skip.append((b.start + b.hdr + 48, b.end))
    except ValueError:
        pass
    return skip


def _sym_file(sx, name, with_json=False):
    kw = FILES[name][2]
    data = file_bytes(name)
    skip = _candidate_ranges(data)
    structural = mkx.discover_structural((name, with_json), data, _pipeline(kw, with_json), skip_ranges=skip)
    buf, symidx = mkx.symbolise(sx, data, structural, max_symbolic=MAX_SYMBOLIC, skip_ranges=skip)
    sx.note('symbolic_bytes', len(symidx))
    return buf, kw, data


def _sym_file_encsteer(sx, name):
    """only the bytes that steer the *encoder* but not the parser are symbolic (everything else
    keeps the fixture value): a value-dependent branch in an encoder is then explored for every
    value of the field instead of being pinned to the fixture's value by the discovery pass"""
    kw = FILES[name][2]
    data = file_bytes(name)
    skip = _candidate_ranges(data)
    full = set(mkx.discover_structural((name, False), data, _pipeline(kw, False), skip_ranges=skip))
    par = set(mkx.discover_structural((name, 'parse-only'), data, _pipeline(kw, False, parse_only=True), skip_ranges=skip))
    steer = sorted(full - par)
    keep = [i for i in range(len(data)) if i not in steer]
    buf, symidx = mkx.symbolise(sx, data, keep, skip_ranges=skip)
    sx.note('symbolic_bytes', len(symidx))
    sx.note('encoder_steering_bytes', steer)
    return buf, kw, data


class _Filtered:
    """sx facade that leaves some obligations out"""

    def __init__(self, sx, skip):
        self._sx = sx
        self._skip = skip

    def prove(self, cond, label, detail=None):
        if label in self._skip:
            return None
        return self._sx.prove(cond, label, detail)

    def fail(self, label, detail=None):
        if label in self._skip:
            return None
        return self._sx.fail(label, detail)

    def __getattr__(self, k):
        return getattr(self._sx, k)


def h_encsteer(sx, name):
    return h_roundtrip(sx, name, encsteer=True)


def h_roundtrip(sx, name, encsteer=False):
    from pysx.core import sx_and
    buf, kw, data = _sym_file_encsteer(sx, name) if encsteer else _sym_file(sx, name)
    if encsteer:
        # steering fields (flags words, offsets) have reserved bits the encoder does not keep, so
        # field equality needs per-field legality; byte identity of re-encoding does not
        real_prove = sx.prove
        sx = _Filtered(sx, skip=('C04.f2b2f',))
    try:
        t0 = _load(buf, kw, 'r', False)
        f0 = mkx.atom_fields(t0)
    except Exception as e:
        sx.fail('C04.exc', detail={'stage': 'parse', 'raised': type(e).__name__, 'msg': str(e)[:160]})
        return
    try:
        b1 = t0.encode()
    except Exception as e:
        # every field value came out of the parser, so it is legal and must be encodable
        sx.fail('C04.f2b2f', detail={'stage': 'encode of parsed tree', 'raised': type(e).__name__, 'msg': str(e)[:160]})
        return
    try:
        t1 = _load(b1, kw, 'r', False)
        f1 = mkx.atom_fields(t1)
        b2 = t1.encode()
    except Exception as e:
        sx.fail('C04.exc', detail={'stage': 're-parse', 'raised': type(e).__name__, 'msg': str(e)[:160]})
        return
    sx.prove(True, 'C04.exc')
    eq, mismatch = mkx.deep_equal(f0, f1)
    sx.prove(eq, 'C04.f2b2f', detail={'mismatch': mismatch})
    sx.prove(len(b2) == len(b1) and mkx.bytes_equal(b2, b1), 'C04.b2f2b',
             detail={'len_in': len(b1), 'len_out': len(b2)})
    # the fixture's own structure survives byte-exactly: same length, and every byte that is
    # concrete in the input (structure, reserved fields) is reproduced
    same_len = len(b1) == len(buf)
    diffs = []
    if same_len:
        symset = buf.sym if hasattr(buf, 'sym') else {}
        o1 = b1.data if hasattr(b1, 'data') else b1
        osym = b1.sym if hasattr(b1, 'sym') else {}
        i0 = buf.data if hasattr(buf, 'data') else buf
        conds = []
        for i in range(len(i0)):
            if i in symset:
                continue
            if i in osym:
                conds.append(osym[i] == i0[i])
            elif o1[i] != i0[i]:
                diffs.append(i)
        ok = sx_and(not diffs, *conds)
    else:
        ok = False
    sx.prove(ok, 'C04.b2f2b', detail={'len_fixture': len(buf), 'len_encoded': len(b1), 'first_differences': diffs[:5]})
    try:
        t2 = _load(b1, kw, 'r', True)
        o3 = t2.encode()
        _force_lazy(t2)
        o4 = t2.encode()
    except Exception as e:
        sx.fail('C04.exc', detail={'stage': 'lazy parse', 'raised': type(e).__name__, 'msg': str(e)[:160]})
        return
    eq2, mismatch2 = mkx.deep_equal(f1, mkx.atom_fields(t2))
    sx.prove(sx_and(len(o3) == len(b1) and mkx.bytes_equal(o3, b1),
                    len(o4) == len(b1) and mkx.bytes_equal(o4, b1), eq2),
             'C04.lazy', detail={'mismatch': mismatch2})
    sx.note('expect', {'out': b1})


def h_json(sx, name):
    from dashlive.mpeg import mp4
    buf, kw, data = _sym_file(sx, name, with_json=True)
    try:
        t0 = _load(buf, kw, 'r', False)
        b1 = t0.encode()
        t1 = _load(b1, kw, 'r', False)
    except Exception as e:
        sx.fail('C04.exc', detail={'stage': 'json setup', 'raised': type(e).__name__, 'msg': str(e)[:160]})
        return
    try:
        # the wrapper is only the container of the top-level boxes: convert box by box
        out4 = b''
        for child in t1.children:
            out4 = out4 + mp4.Mp4Atom.fromJSON(child.toJSON()).encode()
    except Exception as e:
        sx.fail('C04.json', detail={'raised': type(e).__name__, 'msg': str(e)[:200]})
        return
    sx.prove(len(out4) == len(b1) and mkx.bytes_equal(out4, b1), 'C04.json',
             detail={'len_in': len(b1), 'len_out': len(out4)})


EDITS = {
    # name -> (file, description)
    'moof.mfhd.seq': ('tseg', 'assign mfhd.sequence_number'),
    'moof.tfdt.time': ('tseg', 'assign tfdt.base_media_decode_time (32 -> 64 bit growth included)'),
    'moof.tfdt-v0.time': ('tseg-tfdt-v0', 'assign tfdt.base_media_decode_time on a version 0 box (32 -> 64 bit growth)'),
    'moov.mvhd.duration': ('moov', 'assign mvhd.duration (32 -> 64 bit growth)'),
    'moof.remove-tfdt': ('tseg', 'remove traf.tfdt'),
    'moof.insert-tfdt': ('tseg', 'remove then insert a fresh tfdt after tfhd'),
    'root.del-sidx': ('aseg', 'del wrapper.sidx'),
    'moov.append-pssh': ('moov', 'append a pssh box to moov'),
    'moov.del-mehd': ('moov', 'del moov.mvex.mehd'),
    'moov.append-pssh-v1-nokids': ('moov', 'append a version 1 pssh without key ids but with a data blob'),
    'moov.append-pssh-v0': ('moov', 'append a version 0 pssh with a data blob'),
    'moov.append-pssh+del-mehd': ('moov', 'two edits'),
    'enc-moov.remove-pssh': ('enc-moov', 'del moov.pssh'),
}


def _walk_sizes(sx, tree_bytes, label, detail):
    """independent walker: box sizes nest exactly"""
    try:
        root = mk.Root(tree_bytes)
    except ValueError as e:
        sx.fail(label, detail=dict(detail, walker=str(e)))
        return None
    sx.prove(True, label, detail=detail)
    return root


def _sizes_match(atom, root_boxes, sx, path=''):
    """atom.size fields equal the encoded lengths, children fill their parent"""
    from dashlive.mpeg import mp4
    ok = True
    kids = [c for c in atom.children]
    if len(kids) != len(root_boxes):
        return False, f'{path}: {len(kids)} children vs {len(root_boxes)} encoded boxes'
    for c, b in zip(kids, root_boxes):
        typ = c.atom_type if len(c.atom_type) == 4 else 'uuid'
        if typ != b.type:
            return False, f'{path}/{typ}: type {b.type}'
        if c.size != b.size:
            return False, f'{path}/{typ}: size field {c.size} != encoded {b.size}'
        if c.position != b.start:
            return False, f'{path}/{typ}: position {c.position} != {b.start}'
        if b.children:
            sub = c
            if isinstance(c, mp4.LazyLoadedBox):
                sub = c.lazy_load()
            r, why = _sizes_match(sub, b.children, sx, f'{path}/{typ}')
            if not r:
                return r, why
    return True, None


def h_edit(sx, edit, lazy):
    from dashlive.mpeg import mp4
    from pysx.core import sx_and
    fname, _ = EDITS[edit]
    kw = FILES[fname][2]
    data = file_bytes(fname)

    def ops(d):
        t = _load(d, kw, 'rw', lazy)
        _apply_edit(None, t, edit, concrete=True)
        o = t.encode()
        r = mk.Root(o)
        _sizes_match(t, r.children, None)
        mk.Root(d)
        mk.Root(_load(d, kw, 'rw', lazy).encode())
        # bytes that no parsed field depends on (reserved) keep their well-formed fixture value
        return mkx.atom_fields(_load(d, kw, 'r', False))
    structural = mkx.discover_structural((fname, 'edit', edit, lazy), data, ops)
    buf, symidx = mkx.symbolise(sx, data, structural, max_symbolic=600)
    try:
        # baseline: the same tree encoded without the edit (canonical form of reserved bits)
        base = _load(buf, kw, 'rw', lazy).encode()
        t = _load(buf, kw, 'rw', lazy)
        expect = _apply_edit(sx, t, edit, concrete=False)
        out = t.encode()
    except Exception as e:
        sx.fail('C04.exc', detail={'stage': 'edit ' + edit, 'raised': type(e).__name__, 'msg': str(e)[:160]})
        return
    sx.prove(True, 'C04.exc')
    det = {'edit': edit, 'lazy': lazy, 'len_out': len(out)}
    try:
        root = mk.Root(out)
    except ValueError as e:
        sx.fail('C04.size', detail=dict(det, walker=str(e)))
        return
    ok, why = _sizes_match(t, root.children, sx)
    sx.prove(ok, 'C04.size', detail=dict(det, why=why))
    # the edit is visible and nothing else changed
    for k, check in enumerate(expect):
        try:
            res = check(root, out, base)
        except Exception as e:
            sx.fail('C04.size', detail=dict(det, what=f'check {k} raised {type(e).__name__}: {str(e)[:120]}'))
            continue
        sx.prove(res, 'C04.size', detail=dict(det, what=f'edit effect / other bytes unchanged (check {k})'))


def _apply_edit(sx, t, edit, concrete):
    """performs the edit on tree t; returns checks (root, out, original) -> SymBool"""
    from dashlive.mpeg import mp4
    checks = []

    def sym(name, lo, hi, conc):
        return conc if concrete else sx.int(name, lo, hi)

    def same_box(path):
        def chk(root, out, orig):
            b = root.find(path)
            o = mk.Root(orig).find(path)
            if b is None or o is None:
                return False
            return mkx.bytes_equal(out[b.start:b.end], orig[o.start:o.end]) if b.size == o.size else False
        return chk
    if edit == 'moof.mfhd.seq':
        v = sym('seq', 0, 2 ** 32 - 1, 7)
        t.moof.mfhd.sequence_number = v
        checks.append(lambda root, out, orig: mk.read_mfhd(root.find('moof.mfhd')) == v)
        checks += [same_box('mdat'), same_box('moof.traf.trun') if False else (lambda r, o, g: True)]
    elif edit == 'moov.mvhd.duration':
        v = sym('time', 0, 2 ** 64 - 1, 1 << 33)
        t.moov.mvhd.duration = v

        def chk(root, out, orig):
            b = root.find('moov.mvhd')
            ver = mk._u(out, b.start + 8, 1)
            p = b.start + 12
            if ver == 1:
                return mk._u(out, p + 8 + 8 + 4, 8) == v
            return mk._u(out, p + 4 + 4 + 4, 4) == v
        checks.append(chk)
        checks.append(same_box('moov.trak'))
    elif edit in ('moof.tfdt.time', 'moof.tfdt-v0.time'):
        v = sym('time', 0, 2 ** 64 - 1, 1 << 33)
        t.moof.traf.tfdt.base_media_decode_time = v
        checks.append(lambda root, out, orig: mk.read_tfdt(root.find('moof.traf.tfdt'))[1] == v)
        checks.append(same_box('mdat'))
    elif edit == 'moof.remove-tfdt':
        traf = t.moof.traf
        traf.remove_child(traf.index('tfdt'))
        checks.append(lambda root, out, orig: root.find('moof.traf.tfdt') is None)
        checks.append(same_box('mdat'))
    elif edit == 'moof.insert-tfdt':
        traf = t.moof.traf
        traf.remove_child(traf.index('tfdt'))
        v = sym('time', 0, 2 ** 32 - 1, 5)
        tfdt = mp4.TrackFragmentDecodeTimeBox(version=0, flags=0, base_media_decode_time=v)
        traf.insert_child(traf.index('tfhd') + 1, tfdt)
        checks.append(lambda root, out, orig: mk.read_tfdt(root.find('moof.traf.tfdt'))[1] == v)
        checks.append(lambda root, out, orig: [c.type for c in root.find('moof.traf').children][:2] == ['tfhd', 'tfdt'])
        checks.append(same_box('mdat'))
    elif edit == 'root.del-sidx':
        del t.sidx
        checks.append(lambda root, out, orig: root.find('sidx') is None)
        checks += [same_box('mdat'), same_box('moof')]
    elif edit in ('moov.append-pssh', 'moov.append-pssh+del-mehd'):
        kid = bytes(range(16)) if concrete else None
        kid2 = bytes(range(16, 32)) if concrete else None
        if not concrete:
            from pysx import bytes_
            kid = bytes_.fresh_bytes('kid', 16)
            kid2 = bytes_.fresh_bytes('kid2', 16)
        pssh = mp4.ContentProtectionSpecificBox(version=1, flags=0, system_id='e2719d58a985b3c9781ab030af78d30e',
                                                key_ids=[kid, kid2], data=None)
        t.moov.append_child(pssh)

        def chk(root, out, orig):
            from pysx.core import sx_and
            boxes = root.find('moov').find_all('pssh')
            if len(boxes) != 1:
                return False
            b = boxes[0]
            payload = out[b.start + 12:b.end]
            return sx_and(mkx.bytes_equal(payload[20:36], kid), mkx.bytes_equal(payload[36:52], kid2),
                          b is root.find('moov').children[-1], len(payload) == 16 + 4 + 32 + 4)
        checks.append(chk)

        def chk_reparse(root, out, orig):
            # the library's own parser returns the two key ids (fields -> bytes -> fields)
            from pysx.core import sx_and
            t2 = _load_any(out, {}, 'r', False)
            p2 = [c for c in t2.moov.children if c.atom_type == 'pssh'][-1]
            if len(p2.key_ids) != 2 or any(k is None for k in p2.key_ids):
                return False
            return sx_and(mkx.bytes_equal(p2.key_ids[0].data, kid), mkx.bytes_equal(p2.key_ids[1].data, kid2))
        checks.append(chk_reparse)
        checks.append(same_box('moov.trak'))
        if edit.endswith('del-mehd'):
            del t.moov.mvex.mehd
            checks.append(lambda root, out, orig: root.find('moov.mvex.mehd') is None)
            checks.append(same_box('moov.mvex.trex'))
    elif edit in ('moov.append-pssh-v1-nokids', 'moov.append-pssh-v0'):
        ver = 1 if 'v1' in edit else 0
        blob = bytes(range(100, 108)) if concrete else None
        if not concrete:
            from pysx import bytes_
            blob = bytes_.fresh_bytes('kid', 8)
        pssh = mp4.ContentProtectionSpecificBox(version=ver, flags=0, system_id='9a04f07998404286ab92e65be0885f95',
                                                key_ids=[], data=blob)
        t.moov.append_child(pssh)

        def chk(root, out, orig):
            from pysx.core import sx_and
            b = root.find('moov').children[-1]
            if b.type != 'pssh':
                return False
            payload = out[b.start + 12:b.end]
            want_len = 16 + (4 if ver else 0) + 4 + 8
            if len(payload) != want_len:
                return False
            p = 16
            conds = []
            if ver:
                conds.append(mk._u(payload, p, 4) == 0)
                p += 4
            conds.append(mk._u(payload, p, 4) == 8)
            conds.append(mkx.bytes_equal(payload[p + 4:p + 12], blob))
            return sx_and(*conds)
        checks.append(chk)

        def chk_reparse(root, out, orig):
            t2 = _load_any(out, {}, 'r', False)
            p2 = [c for c in t2.moov.children if c.atom_type == 'pssh'][-1]
            if len(p2.key_ids) != 0 or p2.data is None or p2.version != ver:
                return False
            return mkx.bytes_equal(p2.data.data, blob)
        checks.append(chk_reparse)
        checks.append(same_box('moov.trak'))
    elif edit == 'moov.del-mehd':
        del t.moov.mvex.mehd
        checks.append(lambda root, out, orig: root.find('moov.mvex.mehd') is None)
        checks += [same_box('moov.mvex.trex'), same_box('moov.trak'), same_box('moov.mvhd')]
    elif edit == 'enc-moov.remove-pssh':
        del t.moov.pssh
        checks.append(lambda root, out, orig: root.find('moov.pssh') is None)
        checks += [same_box('moov.trak'), same_box('moov.mvhd')]
    else:
        raise KeyError(edit)
    return checks


def instances(tier):
    files = Q_FILES if tier == 'quick' else [f for f in dict.fromkeys(T_FILES)]
    out = []
    for name in files:
        out.append({'name': f'roundtrip[{name}]', 'fn': h_roundtrip, 'params': {'name': name}, 'weight': 3,
                    'opts': {'max_paths': 2000, 'max_decisions': 20000, 'query_timeout_ms': 60000}})
    for name in files:
        if name in ('aseg', 'bbb_v7', 'bbb_a1_enc', 'seg1', 'emsg', 'webvtt'):
            continue        # two discovery passes over 50-170 KB; webvtt: the steering fields are 64-bit sidx/tfdt times whose legal range depends on the box version (needs a per-field precondition)
        out.append({'name': f'encsteer[{name}]', 'fn': h_encsteer, 'params': {'name': name}, 'weight': 3,
                    'opts': {'max_paths': 3000, 'max_decisions': 20000, 'query_timeout_ms': 60000, 'fork_limit': 300}})
    # JSON conversion goes through base64 text: only files without large mdat payloads
    for name in (['moov', 'hevc-moov', 'eac3-moov'] if tier == 'quick'
                 else ['moov', 'enc-moov', 'hevc-moov', 'eac3-moov', 'ebuttd', 'webvtt']):
        out.append({'name': f'json[{name}]', 'fn': h_json, 'params': {'name': name}, 'weight': 3,
                    'opts': {'max_paths': 2000, 'max_decisions': 20000, 'query_timeout_ms': 60000}})
    for edit in EDITS:
        for lazy in (False, True):
            out.append({'name': f'edit[{edit},{"lazy" if lazy else "eager"}]', 'fn': h_edit,
                        'params': {'edit': edit, 'lazy': lazy},
                        'opts': {'max_paths': 2000, 'max_decisions': 20000, 'query_timeout_ms': 60000}})
    return out


# ---------------------------------------------------------------------------
# concrete side

def _concrete_bytes(name_or_file, inputs, prefix='b'):
    kw = FILES[name_or_file][2]
    data = bytearray(file_bytes(name_or_file))
    for k, v in inputs.items():
        if k.startswith(prefix + '['):
            data[int(k[len(prefix) + 1:-1])] = v
    return bytes(data), kw


def _real_load(data, kw, mode='r', lazy=False):
    import io
    from dashlive.mpeg import mp4
    return mp4.Mp4Atom.load(io.BufferedReader(io.BytesIO(data)), options=mp4.Options(mode=mode, lazy_load=lazy, **kw),
                            use_wrapper=True)


def observe(instance, params, inputs):
    if not (instance.startswith('roundtrip[') or instance.startswith('encsteer[')):
        return None
    data, kw = _concrete_bytes(params['name'], inputs)
    try:
        return {'out': _real_load(data, kw).encode().hex()}
    except Exception as e:
        return {'raised': type(e).__name__}


def _first_diff(a, b):
    for i, (x, y) in enumerate(zip(a, b)):
        if x != y:
            return i
    return min(len(a), len(b)) if len(a) != len(b) else None


def _force_real(a):
    from dashlive.mpeg import mp4
    for i in range(len(a._children or [])):
        c = a._children[i]
        if isinstance(c, mp4.LazyLoadedBox):
            c.lazy_load()
        _force_real(a._children[i])


def _json_of(t):
    return repr(t.toJSON(pure=True))


def replay(case):
    params, inputs, label, inst = case['params'], case['inputs'], case['label'], case['instance']
    from dashlive.mpeg import mp4
    try:
        if inst.startswith('roundtrip[') or inst.startswith('json[') or inst.startswith('encsteer['):
            data, kw = _concrete_bytes(params['name'], inputs)
            t0 = _real_load(data, kw)
            bad = {}
            j0 = _json_of(t0)
            try:
                b1 = t0.encode()
            except Exception as e:
                return {'violated': True, 'observed': {'stage': 'encode of parsed tree', 'raised': type(e).__name__,
                                                       'msg': str(e)[:200]}}
            t1 = _real_load(b1, kw)
            if inst.startswith('json['):
                out4 = b''.join(mp4.Mp4Atom.fromJSON(c.toJSON()).encode() for c in t1.children)
                d = _first_diff(out4, b1)
                return {'violated': out4 != b1, 'observed': {'first_difference_at': d, 'len_in': len(b1), 'len_out': len(out4),
                                                             'in': b1[max(0, (d or 0) - 8):(d or 0) + 8].hex(),
                                                             'out': out4[max(0, (d or 0) - 8):(d or 0) + 8].hex()}}
            if j0 != _json_of(t1):
                bad['C04.f2b2f'] = 'fields differ after encode + parse'
            b2 = t1.encode()
            symbolic_positions = {int(k[2:-1]) for k in inputs if k.startswith('b[')}
            fixture = file_bytes(params['name'])
            struct_diff = [i for i in range(min(len(b1), len(fixture)))
                           if i not in symbolic_positions and b1[i] != fixture[i]]
            if b2 != b1 or len(b1) != len(data) or struct_diff:
                d = _first_diff(b2, b1) if b2 != b1 else (struct_diff[0] if struct_diff else None)
                bad['C04.b2f2b'] = {'first_difference_at': d, 'len_fixture': len(data), 'len_encoded': len(b1),
                                    'in': b1[max(0, (d or 0) - 8):(d or 0) + 8].hex(),
                                    'out': b2[max(0, (d or 0) - 8):(d or 0) + 8].hex()}
            t2 = _real_load(b1, kw, 'r', True)
            o3 = t2.encode()
            _force_real(t2)
            o4 = t2.encode()
            if o3 != b1 or o4 != b1 or _json_of(t1) != _json_of(t2):
                bad['C04.lazy'] = {'lazy_bytes_equal': o3 == b1, 'lazy_loaded_bytes_equal': o4 == b1,
                                   'fields_equal': _json_of(t1) == _json_of(t2)}
            return {'violated': label in bad, 'observed': bad}
        # edits: replay by the concrete walker
        fname, _ = EDITS[params['edit']]
        data, kw = _concrete_bytes(fname, inputs)
        t = _real_load(data, kw, 'rw', params['lazy'])
        kid = bytes(inputs.get(f'kid[{i}]', 0) for i in range(16))
        kid2 = bytes(inputs.get(f'kid2[{i}]', 0) for i in range(16))
        checks = _apply_edit_real(t, params['edit'], inputs, (kid, kid2))
        out = t.encode()
        data = _real_load(data, kw, 'rw', params['lazy']).encode()
        try:
            root = mk.Root(out)
        except ValueError as e:
            return {'violated': True, 'observed': {'walker': str(e)}}
        ok, why = _sizes_match(t, root.children, None)
        bad = []
        for i, c in enumerate(checks):
            try:
                if not c(root, out, data):
                    bad.append(i)
            except Exception as e:
                bad.append(f'{i}: {type(e).__name__}')
        return {'violated': (not ok) or bool(bad), 'observed': {'sizes': why, 'failed_checks': bad}}
    except Exception as e:
        import traceback
        return {'violated': True, 'observed': {'raised': type(e).__name__, 'msg': str(e)[:300],
                                               'tb': traceback.format_exc()[-600:]}}


def _apply_edit_real(t, edit, inputs, kid):
    class _SX:
        def int(self, name, lo, hi):
            return inputs[name]
    import pysx.bytes_ as pb
    saved = pb.fresh_bytes
    pb.fresh_bytes = lambda name, n, register=True: (kid[0] if name == 'kid' else kid[1])[:n]
    try:
        return _apply_edit(_SX(), t, edit, concrete=False)
    finally:
        pb.fresh_bytes = saved
