"""C05 - strings placed into a manifest can never add, remove or break elements (kernel level).

Partial claim.  Jinja rendering itself is not executed symbolically; instead

  * the manifest / patch / include templates are scanned on every run: every output expression
    ``{{ expr | filters }}`` is located, its XML context (element text, double-quoted attribute
    value, inside a tag) is derived from the surrounding template text and its escaping chain from
    its filters and from the autoescape rule of the template's file name (Flask: on for .xml,
    off for .mpd);
  * for every sink whose source is one of the hostile string classes of the property (stream
    title, licence URLs, request URL / query values / host name, UTCTiming value, event value) the
    escaping chain - the repository's real ``xmlSafe`` filter, the markupsafe rule for autoescape,
    or nothing - is executed on a symbolic string and the result must be harmless in that
    context for every string: no ``<``, every ``&`` starts a character/entity reference, no ``"``
    inside an attribute value, no ``]]>`` in character data (obligation C05.inject);
  * URL templates: the query text appended to initialization / media templates comes from
    ``dict_to_cgi_params``; for symbolic free-text option values it must not contain a ``$`` that
    is not part of one of the five legal identifiers (C05.tmpl).

Lexical validity of xs:duration / xs:dateTime text is C19 (dur.valid, dt.*); non-negativity of the
timing values is C08; id uniqueness and non-empty AdaptationSets depend on database content.
"""
from __future__ import annotations

import os
import re

PROPERTY = 'C05'

TEMPLATE_GLOBS = ['manifests', 'patches', 'segment', 'drm', 'events']

ASSUMPTIONS = [
    'hostile strings: every character is an XML 1.0 Char below U+007F (tab, LF, CR, 0x20..0x7E); length 1..3 (quick) / 1..4 (thorough); XML 1.0 cannot carry other control characters at all',
    'Flask autoescape rule: on for templates named *.xml / *.html / *.xhtml / *.svg, off otherwise (flask.templating.select_jinja_autoescape); markupsafe.escape replaces & < > \' " by &amp; &lt; &gt; &#39; &#34; (checked against the installed markupsafe at start-up)',
    'hostile sources = expressions matching HOSTILE (title, *URL*, la_url/laurl, request_uri, patch.location, timeSource.value, event-stream value); every other expression is a number, enumeration, identifier, ISO text, base64 or hex (listed in evidence as "unclassified" when it matches no SAFE pattern)',
]
OUTSIDE = [
    'Jinja rendering of the whole document (control flow of the templates, includes, whitespace)',
    'required attributes per MPD@type, id uniqueness, non-empty AdaptationSets (database content)',
    'characters above U+007E and control characters that XML 1.0 cannot represent',
    'value fidelity of doubly escaped text (xmlSafe inside an autoescaped *.xml template)',
]

HOSTILE = [
    (r'^title$', 'stream title'),
    (r'request_uri', 'request URL'),
    (r'locationURL|patch\.location', 'request URL'),
    (r'baseURL', 'request URL / host name'),
    (r'initURL|mediaURL', 'media URL with forwarded query values'),
    (r'la_url|laurl', 'licence URL'),
    (r'timeSource\.value', 'UTCTiming value (query value / host name)'),
    (r'^stream\.value$', 'event stream value (query value)'),
]
SAFE = [r'isoDuration|isoDateTime|base64|uuid|trueFalse|frameRateFraction|toJson|length',
        r'\.(id|timescale|bitrate|width|height|sampleRate|numChannels|startWithSAP|start_number|duration|'
        r'segment_duration|presentationTimeOffset|maxWidth|maxHeight|minWidth|minHeight|maxBitrate|minBitrate|'
        r'start|end|repeat|count|ttl|mimeType|content_type|codecs|par|sar|scanType|role|schemeIdUri|scheme_id|'
        r'lang|language|mpd_id|index|tag|alg|hex|contentEncoding|presentationTime|messageData|value|attributes|data)\b',
        r'profiles', r'^seg\.', r'^segList\.', r'^loop\.']


def bounds(tier):
    return {'string_len': [1, 3] if tier == 'quick' else [1, 4], 'alphabet': 'U+0009, U+000A, U+000D, U+0020..U+007E',
            'template_dirs': TEMPLATE_GLOBS}


def OBLIGATIONS(tier):
    return ['C05.inject', 'C05.tmpl', 'C05.scan']


def _repo():
    return os.environ.get('DASHLIVE_REPO', '/repo')


def _autoescape(name):
    return name.endswith(('.html', '.htm', '.xml', '.xhtml', '.svg'))


_JINJA = re.compile(r'\{\{.*?\}\}|\{%.*?%\}|\{#.*?#\}', re.S)


def _context_at(src, pos):
    """XML context of template position pos: 'text', 'attr' (inside a double-quoted attribute
    value) or 'tag' (inside a tag, outside quotes)"""
    before = _JINJA.sub('', src[:pos])
    # drop comments and processing instructions
    before = re.sub(r'<!--.*?-->|<\?.*?\?>', '', before, flags=re.S)
    lt, gt = before.rfind('<'), before.rfind('>')
    if lt > gt:
        inside = before[lt:]
        return 'attr' if inside.count('"') % 2 == 1 else 'tag'
    return 'text'


def _split_filters(expr):
    parts, depth, cur = [], 0, ''
    for ch in expr:
        if ch in '([':
            depth += 1
        elif ch in ')]':
            depth -= 1
        if ch == '|' and depth == 0:
            parts.append(cur.strip())
            cur = ''
        else:
            cur += ch
    parts.append(cur.strip())
    return parts[0], parts[1:]


def scan_templates():
    """-> list of sinks {file, line, expr, base, filters, context, autoescape, hostile, klass}"""
    root = os.path.join(_repo(), 'templates')
    out = []
    for d in TEMPLATE_GLOBS:
        dd = os.path.join(root, d)
        for fn in sorted(os.listdir(dd)):
            if not fn.endswith(('.mpd', '.xml')):
                continue
            rel = f'{d}/{fn}'
            src = open(os.path.join(dd, fn), encoding='utf-8').read()
            for m in re.finditer(r'\{\{(.*?)\}\}', src, re.S):
                expr = ' '.join(m.group(1).split())
                base, filters = _split_filters(expr)
                hostile = None
                for pat, what in HOSTILE:
                    if re.search(pat, base):
                        hostile = what
                        break
                klass = 'hostile' if hostile else ('safe' if any(re.search(p, expr) for p in SAFE) else 'unclassified')
                out.append({'file': rel, 'line': src.count('\n', 0, m.start()) + 1, 'expr': expr, 'base': base,
                            'filters': [f.split('(')[0].strip() for f in filters], 'context': _context_at(src, m.start()),
                            'autoescape': _autoescape(fn), 'hostile': hostile, 'klass': klass})
    return out


# ---------------------------------------------------------------------------
# escaping chains on symbolic strings

def _markupsafe_escape(s):
    """markupsafe.escape as documented (validated against the real one in _selfcheck_markupsafe)"""
    for a, b in (('&', '&amp;'), ('>', '&gt;'), ('<', '&lt;'), ("'", '&#39;'), ('"', '&#34;')):
        s = s.replace(a, b)
    return s


def _selfcheck_markupsafe():
    import markupsafe
    for probe in ['', 'a', '&<>\'"', 'a&b<c>d"e\'f', '&amp;', ']]>', '\t\n x']:
        if str(markupsafe.escape(probe)) != _markupsafe_escape(probe):
            raise AssertionError(f'markupsafe model disagrees on {probe!r}')


def apply_chain(s, sink):
    """what the template engine does to the value of the sink expression"""
    from dashlive.server import template_tags as tt
    safe = False
    for f in sink['filters']:
        if f == 'xmlSafe':
            s = tt.xmlSafe(s)
            safe = False
        elif f == 'safe':
            safe = True
        elif f in ('default', 'trim'):
            pass
        else:
            raise KeyError(f'filter {f} on a hostile string is not modelled')
    if sink['autoescape'] and not safe:
        s = _markupsafe_escape(s)
    return s


_ENTITIES = ['amp;', 'lt;', 'gt;', 'quot;', 'apos;']


def _eq(c, ch):
    return c == ord(ch)


def harmless(out, context):
    """SymBool: the text cannot add, remove or break elements when placed in the context"""
    from pysx.core import sx_and, sx_or, sx_not
    from pysx import chars
    cps = chars.as_cps(out)
    n = len(cps)
    bad = []
    for i, c in enumerate(cps):
        bad.append(_eq(c, '<'))
        if context in ('attr', 'tag'):
            bad.append(_eq(c, '"'))
        if context == 'tag':
            bad.append(sx_or(_eq(c, '>'), _eq(c, '/'), _eq(c, ' '), _eq(c, '=')))
        # '&' must start a reference
        refs = []
        for e in _ENTITIES:
            if i + len(e) <= n - 1:
                refs.append(sx_and(*[_eq(cps[i + 1 + k], e[k]) for k in range(len(e))]))
        # numeric references &#d+; (decimal is what the escapers produce)
        for nd in (1, 2, 3, 4):
            if i + 2 + nd <= n - 1:
                digs = [sx_and(cps[i + 2 + k] >= 48, cps[i + 2 + k] <= 57) for k in range(nd)]
                refs.append(sx_and(_eq(cps[i + 1], '#'), *digs, _eq(cps[i + 2 + nd], ';')))
        bad.append(sx_and(_eq(c, '&'), sx_not(sx_or(*refs)) if refs else True))
        if context == 'text' and i + 2 < n:
            bad.append(sx_and(_eq(c, ']'), _eq(cps[i + 1], ']'), _eq(cps[i + 2], '>')))
    return sx_not(sx_or(*bad)) if bad else True


def _fresh_string(sx, n):
    from pysx import chars
    from pysx.core import sx_or, sx_and
    s = chars.fresh('s', n, 9, 126)
    for c in s.cps:
        sx.assume(sx_or(c == 9, c == 10, c == 13, c >= 32), 'XML 1.0 Char')
    return s


def _region(sink):
    return ''


def h_sink(sx, idx, n):
    sink = scan_templates()[idx]
    s = _fresh_string(sx, n)
    try:
        out = apply_chain(s, sink)
    except Exception as e:
        sx.fail('C05.inject', detail={'sink': sink, 'raised': type(e).__name__, 'msg': str(e)[:160]})
        return
    sx.prove(harmless(out, sink['context']), 'C05.inject',
             detail={'file': sink['file'], 'line': sink['line'], 'expr': sink['expr'], 'context': sink['context'],
                     'autoescape': sink['autoescape'], 'source': sink['hostile'], 'value': s, 'rendered': out})
    sx.note('expect', {'rendered': out})


def h_scan(sx):
    """structure facts re-derived on every run: the scan finds the sinks the property names"""
    sinks = scan_templates()
    _selfcheck_markupsafe()
    kinds = {s['hostile'] for s in sinks if s['hostile']}
    need = {'stream title', 'request URL', 'media URL with forwarded query values', 'licence URL'}
    sx.prove(need <= kinds, 'C05.scan', detail={'found': sorted(kinds)})
    sx.note('sinks', {'hostile': sum(1 for s in sinks if s['klass'] == 'hostile'),
                      'safe': sum(1 for s in sinks if s['klass'] == 'safe'),
                      'unclassified': sorted({s['expr'] for s in sinks if s['klass'] == 'unclassified'})})


# ---------------------------------------------------------------------------
# URL templates

LEGAL_IDS = ['$RepresentationID$', '$Number$', '$Time$', '$Bandwidth$', '$$']


def _free_text_options():
    from dashlive.server.options.repository import OptionsRepository
    out = []
    for o in OptionsRepository.get_dash_options():
        fs = getattr(o.from_string, '__name__', '')
        if fs in ('string_or_none', 'default_to_string', 'unquoted_url_or_none_from_string') and not o.cgi_choices \
                or (fs == 'default_to_string'):
            if int(o.usage) & 0x0E:           # forwarded to audio / video / text requests
                out.append(o)
    return out


def h_tmpl(sx, cgi_name, n):
    """query text appended to a SegmentTemplate URL must not introduce template identifiers"""
    from pysx import chars
    from pysx.core import sx_and, sx_or, sx_not
    from dashlive.utils.objects import dict_to_cgi_params
    from dashlive.server.options.repository import OptionsRepository
    opt = [o for o in OptionsRepository.get_dash_options() if o.cgi_name == cgi_name][0]
    s = _fresh_string(sx, n)
    try:
        text = opt.to_string(s)
        qs = dict_to_cgi_params({cgi_name: text})
    except Exception as e:
        sx.fail('C05.tmpl', detail={'option': cgi_name, 'raised': type(e).__name__, 'msg': str(e)[:120]})
        return
    cps = chars.as_cps(qs)
    has_dollar = sx_or(*[c == 36 for c in cps]) if cps else False
    region = '@unquoted_free_text' if getattr(opt.to_string, '__name__', '') != 'quoted_url_or_none_to_string' else ''
    sx.prove(sx_not(has_dollar), 'C05.tmpl' + region, detail={'option': cgi_name, 'value': s, 'query': qs})
    sx.note('expect', {'query': qs})


def instances(tier):
    out = [{'name': 'scan', 'fn': h_scan, 'params': {}}]
    maxn = 3 if tier == 'quick' else 4
    for idx, sink in enumerate(scan_templates()):
        if sink['klass'] != 'hostile':
            continue
        for n in range(1, maxn + 1):
            if n == maxn and maxn >= 3 and 'xmlSafe' not in sink['filters'] and not sink['autoescape']:
                continue            # identity chain: every length behaves like length 1
            out.append({'name': f"sink[{sink['file']}:{sink['line']} {sink['expr']},{n}]", 'fn': h_sink,
                        'params': {'idx': idx, 'n': n}, 'opts': {'max_paths': 60000, 'fork_limit': 200}, 'weight': 6 ** n})
    for o in _free_text_options():
        for n in (1, 2):
            out.append({'name': f'tmpl[{o.cgi_name},{n}]', 'fn': h_tmpl, 'params': {'cgi_name': o.cgi_name, 'n': n},
                        'opts': {'max_paths': 60000, 'fork_limit': 200}, 'weight': 5})
    return out


# ---------------------------------------------------------------------------
# concrete side: the same chain on a real string, and a real XML parser as the judge

def _string_of(inputs):
    n = 0
    while f's[{n}]' in inputs:
        n += 1
    return ''.join(chr(inputs[f's[{i}]']) for i in range(n))


def _real_render(sink, s):
    from dashlive.server import template_tags as tt
    import markupsafe
    safe = False
    for f in sink['filters']:
        if f == 'xmlSafe':
            s = tt.xmlSafe(s)
            safe = False
        elif f == 'safe':
            safe = True
    if sink['autoescape'] and not safe:
        s = str(markupsafe.escape(s))
    return s


def _xml_judge(rendered, context, original):
    """well-formed, one element, nothing injected - judged by expat"""
    import xml.etree.ElementTree as ET
    if context == 'attr':
        doc = f'<r a="{rendered}"/>'
    elif context == 'tag':
        doc = f'<r {rendered}/>'
    else:
        doc = f'<r>{rendered}</r>'
    try:
        el = ET.fromstring(doc)
    except ET.ParseError as e:
        return True, {'doc': doc, 'parse_error': str(e)}
    injected = len(list(el)) > 0 or (context == 'attr' and set(el.attrib) != {'a'}) or \
        (context == 'text' and el.attrib)
    return bool(injected), {'doc': doc, 'children': len(list(el)), 'attrib': dict(el.attrib)}


def observe(instance, params, inputs):
    if instance.startswith('sink['):
        sink = scan_templates()[params['idx']]
        return {'rendered': _real_render(sink, _string_of(inputs))}
    if instance.startswith('tmpl['):
        from dashlive.utils.objects import dict_to_cgi_params
        from dashlive.server.options.repository import OptionsRepository
        opt = [o for o in OptionsRepository.get_dash_options() if o.cgi_name == params['cgi_name']][0]
        return {'query': dict_to_cgi_params({params['cgi_name']: opt.to_string(_string_of(inputs))})}
    return None


def replay(case):
    inst, params, inputs = case['instance'], case['params'], case['inputs']
    if inst.startswith('sink['):
        sink = scan_templates()[params['idx']]
        s = _string_of(inputs)
        rendered = _real_render(sink, s)
        violated, obs = _xml_judge(rendered, sink['context'], s)
        return {'violated': violated, 'observed': dict(obs, value=s, file=sink['file'], line=sink['line'], expr=sink['expr'])}
    if inst.startswith('tmpl['):
        q = observe(inst, params, inputs)['query']
        rest = q
        for ident in LEGAL_IDS:
            rest = rest.replace(ident, '')
        return {'violated': '$' in rest, 'observed': {'query': q}}
    if inst == 'scan':
        sinks = scan_templates()
        kinds = {s['hostile'] for s in sinks if s['hostile']}
        return {'violated': not ({'stream title', 'request URL', 'licence URL'} <= kinds), 'observed': sorted(kinds)}
    return {'violated': None, 'observed': None}
