"""C06 - static manifests describe the stored media completely and exactly.

Encoded: Representation.load (indexing of a parsed file), generateSegmentList,
generateSegmentTimeline (vod), calculate_first_and_last_segment_number,
calculate_segment_number_and_time (vod), LiveMedia.calculate_media_segment_index (vod),
DashTiming.calculate_vod_params, toIsoDuration / from_isodatetime.
"""
from __future__ import annotations

import types

from . import common
from . import timing_kernel as tk

PROPERTY = 'C06'

LAYOUTS_Q = ['bbb_v7', 'bbb_a1', 'bbb_t1', 'syn_short_last', 'syn_irregular', 'syn_two']
LAYOUTS_T = LAYOUTS_Q + ['bbb_a2', 'tears_a1', 'tears_v1', 'syn_long_first', 'syn_st', 'syn_10mhz', 'syn_1hz']

ASSUMPTIONS = [
    'indexing: a parsed file is ftyp, moov, then k in 2..4 (quick) fragments moof+mdat (optionally followed by sidx/free), atoms tile the file (position_{i+1} = position_i + size_i); sizes, sample durations, first sequence number and first decode time are symbolic',
    'vod addressing: catalogue layouts with a symbolic startNumber (0 .. 2**31) and symbolic requested number',
    'vod-xref: the stream timing reference has the representation\'s timescale and a symbolic media duration in (stored duration - last segment, stored duration + 2 longest segments]',
    'the moov box handed to Representation.load is the parsed moov of tests/fixtures/bbb/bbb_v7.mp4',
]
OUTSIDE = ['manifest templates (which attribute prints which value)', 'on-demand byte ranges beyond C13',
           'layouts outside the catalogue for $Time$ addressing',
           'vod timelines when the timing reference is shorter than the representation by more than its last segment (the list is then cut at the reference duration)']


def bounds(tier):
    return {'layouts': LAYOUTS_Q if tier == 'quick' else LAYOUTS_T, 'fragments_indexed': [2, 4] if tier == 'quick' else [2, 6],
            'sizes': [1, 2 ** 40], 'sample_durations': [1, 2 ** 20], 'start_number': [0, 2 ** 31]}


def OBLIGATIONS(tier):
    return ['C06.index', 'C06.list', 'C06.count', 'C06.time', 'C06.dur', 'C06.exc']


# ---------------------------------------------------------------------------
# indexing

_MOOV = None


def _real_moov():
    """the parsed moov of a fixture (concrete), as Representation.load expects it"""
    global _MOOV
    if _MOOV is None:
        import io
        import os
        from dashlive.mpeg import mp4
        with open(os.path.join(common.FIX, 'bbb', 'bbb_v7.mp4'), 'rb') as f:
            data = f.read(common.layouts()['bbb_v7']['segments'][0]['size'])
        try:
            from pysx import iomodel
            src = iomodel.SxBufferedReader(iomodel.SxBytesIO(data))
        except Exception:
            src = io.BufferedReader(io.BytesIO(data))
        atoms = mp4.Mp4Atom.load(src, options=mp4.Options(lazy_load=False))
        _MOOV = [a for a in atoms if a.atom_type == 'moov'][0]
    return _MOOV


class _Atom:
    def __init__(self, atom_type, position, size, **kw):
        self.atom_type = atom_type
        self.position = position
        self.size = size
        self.__dict__.update(kw)

    def find_child(self, name):
        return self.__dict__.get(name)


def _mk_file(mkint, k, tail, tfdt_mode, samples=2):
    """stand-in atom list: ftyp, moov, k x (moof, mdat [, tail box]); returns (atoms, facts)"""
    moov = _real_moov()
    atoms = []
    pos = 0
    ftyp_size = mkint('ftyp.size', 8, 2 ** 20)
    atoms.append(_Atom('ftyp', pos, ftyp_size))
    pos = pos + ftyp_size
    moov_size = mkint('moov.size', 8, 2 ** 20)
    mv = types.SimpleNamespace(atom_type='moov', position=pos, size=moov_size, trak=moov.trak, mvex=moov.mvex)
    atoms.append(mv)
    pos = pos + moov_size
    facts = {'init_end': pos, 'frags': []}
    seq0 = mkint('seq0', 0, 2 ** 31)
    # without any tfdt box the file carries no decode time: it starts at zero
    t0 = mkint('tfdt0', 0, 2 ** 40) if tfdt_mode != 'none' else 0
    t = t0
    for i in range(k):
        moof_size = mkint(f'moof{i}.size', 8, 2 ** 30)
        mdat_size = mkint(f'mdat{i}.size', 8, 2 ** 40)
        durs = [mkint(f'dur{i}.{j}', 1, 2 ** 20) for j in range(samples)]
        smp = [types.SimpleNamespace(duration=d) for d in durs]
        trun = types.SimpleNamespace(samples=smp)
        tfdt = None
        if tfdt_mode == 'all' or (tfdt_mode == 'first' and i == 0):
            tfdt = types.SimpleNamespace(base_media_decode_time=t)

        class Traf:
            pass
        traf = Traf()
        traf.trun = trun
        if tfdt is not None:
            traf.tfdt = tfdt
        traf.find_child = (lambda name, _t=tfdt: _t if name == 'tfdt' else None)

        class Moof(_Atom):
            def __getattr__(self, name):
                raise AttributeError(name)
        moof = Moof('moof', pos, moof_size, mfhd=types.SimpleNamespace(sequence_number=seq0 + i), traf=traf)
        atoms.append(moof)
        start = pos
        pos = pos + moof_size
        atoms.append(_Atom('mdat', pos, mdat_size))
        pos = pos + mdat_size
        if tail and (i % 2 == 0):
            extra = mkint(f'tail{i}.size', 8, 2 ** 20)
            atoms.append(_Atom(tail, pos, extra))
            pos = pos + extra
        d = 0
        for x in durs:
            d = d + x
        facts['frags'].append({'pos': start, 'size': pos - start, 'duration': d, 'time': t})
        t = t + d
    facts.update(seq0=seq0, t0=t0, end=pos)
    return atoms, facts


def h_index(sx, k, tail, tfdt_mode):
    from pysx.core import sx_and, sx_divmod
    from dashlive.mpeg.dash.representation import Representation
    atoms, facts = _mk_file(lambda n, lo, hi: sx.int(n, lo, hi), k, tail, tfdt_mode)
    try:
        rep = Representation.load('file_v1.mp4', atoms)
    except Exception as e:
        sx.fail('C06.exc', detail={'raised': type(e).__name__, 'msg': str(e)[:160]})
        return
    sx.prove(True, 'C06.exc')
    segs = rep.segments
    conds = [len(segs) == k + 1, segs[0].pos == 0, segs[0].size == facts['init_end']]
    total = 0
    for i, f in enumerate(facts['frags']):
        s = segs[i + 1]
        conds += [s.pos == f['pos'], s.size == f['size'], s.duration == f['duration']]
        total = total + f['duration']
    conds.append(rep.mediaDuration == total)
    conds.append(rep.start_number == facts['seq0'])
    conds.append(rep.start_time == facts['t0'])
    # nominal duration = mean duration of all fragments but the last (which may be short),
    # measured from the first fragment's decode time
    last_start = facts['frags'][-1]['time']
    conds.append(rep.segment_duration == sx_divmod(last_start - facts['t0'], k - 1)[0])
    sx.prove(sx_and(*conds), 'C06.index',
             detail={'segments': [(s.pos, s.size, s.duration) for s in segs], 'mediaDuration': rep.mediaDuration,
                     'start_number': rep.start_number, 'start_time': rep.start_time,
                     'segment_duration': rep.segment_duration, 'facts': facts['frags']})
    # SegmentList byte ranges tile the file
    sl = rep.generateSegmentList()
    lconds = [sl.init.start == 0, sl.init.end == facts['init_end'] - 1, len(sl.media) == k]
    prev_end = sl.init.end
    for m, f in zip(sl.media, facts['frags']):
        lconds += [m.start == prev_end + 1, m.start == f['pos'], m.end == f['pos'] + f['size'] - 1]
        prev_end = m.end
    lconds.append(prev_end == facts['end'] - 1)
    sx.prove(sx_and(*lconds), 'C06.list', detail={'init': sl.init, 'media': sl.media})


# ---------------------------------------------------------------------------
# vod addressing

def _vod_rep(sx, name, sym_start=True):
    import json
    from dashlive.mpeg.dash.representation import Representation
    from dashlive.mpeg.dash.timing import DashTiming
    j = json.loads(json.dumps(common.layouts()[name]))
    if sym_start:
        j['start_number'] = sx.int('start_number', 0, 2 ** 31)
    rep = Representation(**j)
    opts = common.live_opts(mode='vod')
    timing = DashTiming(tk.ast_real(), common.make_ref(name), opts)
    rep.set_dash_timing(timing)
    return rep, timing


def h_vod_number(sx, name):
    from pysx.core import sx_and
    rep, timing = _vod_rep(sx, name)
    N = rep.num_media_segments
    sn = rep.start_number
    n = sx.int('n', -4, 2 ** 31 + N + 8)
    try:
        mod, origin, num = tk.media_index(rep, timing, n, None, mode='vod')
        refused = False
    except ValueError:
        refused = True
    except Exception as e:
        sx.fail('C06.exc', detail={'raised': type(e).__name__, 'msg': str(e)[:120]})
        return
    sx.prove(True, 'C06.exc')
    inside = sx_and(n >= sn, n <= sn + N - 1)
    if refused:
        sx.prove(inside == False, 'C06.count', detail={'n': n, 'start_number': sn, 'N': N, 'refused': True})   # noqa: E712
    else:
        sx.prove(sx_and(inside, mod == n - sn + 1, origin == 0, num == n), 'C06.count',
                 detail={'n': n, 'start_number': sn, 'N': N, 'mod_segment': mod, 'origin': origin})
    sx.note('expect', {'refused': refused})


def h_vod_time(sx, name):
    """every vod SegmentTimeline entry maps to its stored segment; entries are gapless and sum to
    the reference duration; the time just past the end is refused"""
    from pysx.core import sx_and
    rep, timing = _vod_rep(sx, name)
    N = rep.num_media_segments
    entries = tk.expand_timeline(rep.generateSegmentTimeline())
    ref_tc = common.ref_tuple(name)['media_duration']
    conds = [len(entries) == N, entries[0][0] == 0]
    t = 0
    for j, (tj, dj, mod) in enumerate(entries):
        conds.append(tj == t)
        conds.append(dj == rep.segments[j + 1].duration)
        t = t + dj
    conds.append(t == ref_tc)
    sx.prove(sx_and(*conds), 'C06.time', detail={'entries': entries[:6], 'N': N})
    j = sx.int('entry', 0, N)          # N = the first time past the end
    j = j.concrete('entry') if not isinstance(j, int) else j
    if j < N:
        tj = entries[j][0]
    else:
        tj = ref_tc
    try:
        mod, origin, num = tk.media_index(rep, timing, None, tj, mode='vod')
        refused = False
    except ValueError:
        refused = True
    except Exception as e:
        sx.fail('C06.exc', detail={'raised': type(e).__name__, 'msg': str(e)[:120], 'entry': j})
        return
    sx.prove(True, 'C06.exc')
    det = {'entry': j, 't': tj, 'refused': refused}
    if j < N:
        if refused:
            sx.fail('C06.time', detail=det)
        else:
            # stored decode time of that segment = start_time + t_j  (origin 0)
            sx.prove(sx_and(mod == j + 1, origin == 0,
                            rep.segments[mod].start == tj), 'C06.time', detail=dict(det, mod_segment=mod))
    else:
        sx.prove(refused, 'C06.time', detail=det)
    sx.note('expect', {'refused': refused})


def _xref_ref(name, md_ref, ref_ts=None):
    """a stream timing reference that is *not* this representation: same timescale and nominal
    segment duration, its own media duration"""
    from dashlive.mpeg.dash.reference import StreamTimingReference
    j = common.layouts()[name]
    if ref_ts is not None:     # a reference on another timescale (video reference for an audio track)
        return StreamTimingReference(media_name=name + '_ref', media_duration=md_ref,
                                     num_media_segments=len(j['segments']) - 1,
                                     segment_duration=j['segment_duration'] * ref_ts // j['timescale'], timescale=ref_ts)
    return StreamTimingReference(media_name=name + '_ref', media_duration=md_ref,
                                 num_media_segments=len(j['segments']) - 1,
                                 segment_duration=j['segment_duration'], timescale=j['timescale'])


def h_vod_xref(sx, name, ref_ts=None):
    """a representation whose stored duration differs from the stream timing reference (symbolic
    reference duration from inside the representation's last segment to two segments past its end): the vod SegmentTimeline still
    lists the *stored* segments - count, start, every duration, total = stored media duration"""
    import json
    from pysx.core import sx_and
    from dashlive.mpeg.dash.representation import Representation
    from dashlive.mpeg.dash.timing import DashTiming
    j = json.loads(json.dumps(common.layouts()[name]))
    rep = Representation(**j)
    N = rep.num_media_segments
    stored = [s['duration'] for s in j['segments'][1:]]
    md = sum(stored)
    if ref_ts is None:
        md_ref = sx.int('ref_media_duration', md - stored[-1] + 1, md + 2 * max(stored))
    else:   # reference ticks whose conversion (md_ref * ts // ref_ts) stays above md - last
        ts = j['timescale']
        lo = -(-(md - stored[-1] + 1) * ref_ts // ts)
        md_ref = sx.int('ref_media_duration', lo, (md + 2 * max(stored)) * ref_ts // ts)
    timing = DashTiming(tk.ast_real(), _xref_ref(name, md_ref, ref_ts), common.live_opts(mode='vod'))
    rep.set_dash_timing(timing)
    try:
        entries = tk.expand_timeline(rep.generateSegmentTimeline())
    except Exception as e:
        sx.fail('C06.exc', detail={'raised': type(e).__name__, 'msg': str(e)[:120]})
        return
    sx.prove(True, 'C06.exc')
    conds = [len(entries) == N]
    t = 0
    for k, (tk_, dk, mod) in enumerate(entries[:N]):
        conds.append(tk_ == t)
        conds.append(dk == stored[k])
        t = t + dk
    conds.append(t == md)
    sx.prove(sx_and(*conds), 'C06.time', detail={'entries': entries[-3:], 'N': N, 'stored_last': stored[-1],
                                                  'ref_media_duration': md_ref, 'stored_media_duration': md})


def h_duration(sx, ts):
    """mediaPresentationDuration text parses back to the reference duration within 0.5 ms"""
    from pysx import dt
    from pysx.core import sx_and
    from dashlive.mpeg.dash.reference import StreamTimingReference
    from dashlive.mpeg.dash.timing import DashTiming
    from dashlive.utils.date_time import toIsoDuration, from_isodatetime
    md = sx.int('media_duration', 1, 10 ** 6 * ts)
    ref = StreamTimingReference(media_name='x', media_duration=md, num_media_segments=10,
                                segment_duration=4 * ts, timescale=ts)
    timing = DashTiming(tk.ast_real(), ref, common.live_opts(mode='vod'))
    textv = toIsoDuration(timing.mediaDuration)
    back = from_isodatetime(textv)
    R = dt.td_us(back)
    diff = R * ts - md * 1000000
    tol = 500 * ts + ts        # 0.5 ms + one microsecond (timecode_to_timedelta floors to microseconds)
    sx.prove(sx_and(diff <= tol, -diff <= tol), 'C06.dur', detail={'text': textv, 'parsed_us': R, 'media_duration': md})
    sx.note('expect', {'text': textv})


def instances(tier):
    out = []
    ks = [2, 3, 4] if tier == 'quick' else [2, 3, 4, 5, 6]
    for k in ks:
        for tail in (None, 'sidx', 'free'):
            for tfdt_mode in ('all', 'none', 'first'):
                if tier == 'quick' and k > 2 and (tail == 'free' or tfdt_mode == 'first'):
                    continue
                out.append({'name': f'index[k={k},tail={tail},tfdt={tfdt_mode}]', 'fn': h_index,
                            'params': {'k': k, 'tail': tail, 'tfdt_mode': tfdt_mode}})
    for name in (LAYOUTS_Q if tier == 'quick' else LAYOUTS_T):
        out.append({'name': f'vod-number[{name}]', 'fn': h_vod_number, 'params': {'name': name}})
        out.append({'name': f'vod-time[{name}]', 'fn': h_vod_time, 'params': {'name': name},
                    'opts': {'fork_limit': 200}})
        out.append({'name': f'vod-xref[{name}]', 'fn': h_vod_xref, 'params': {'name': name}})
        if common.layouts()[name]['timescale'] != 240:
            out.append({'name': f'vod-xref[{name},ref_ts=240]', 'fn': h_vod_xref, 'params': {'name': name, 'ref_ts': 240},
                        'opts': {'fork_limit': 400}})
    for ts in ([240, 44100, 90000] if tier == 'quick' else [1, 240, 1000, 44100, 48000, 90000, 10000000]):
        out.append({'name': f'duration[ts={ts}]', 'fn': h_duration, 'params': {'ts': ts},
                    'opts': {'fork_limit': 1100, 'max_paths': 100000}})
    return out


# ---------------------------------------------------------------------------
# concrete side

def _real_vod(name, inputs):
    import json
    from dashlive.mpeg.dash.representation import Representation
    from dashlive.mpeg.dash.timing import DashTiming
    j = json.loads(json.dumps(common.layouts()[name]))
    if 'start_number' in inputs:
        j['start_number'] = inputs['start_number']
    rep = Representation(**j)
    timing = DashTiming(tk.ast_real(), common.make_ref(name), common.live_opts(mode='vod'))
    rep.set_dash_timing(timing)
    return rep, timing


def _try(rep, timing, n, t):
    try:
        mod, origin, num = tk.media_index(rep, timing, n, t, mode='vod')
        return {'mod_segment': mod, 'origin': origin, 'num': num}
    except ValueError as e:
        return {'refused': str(e)[:120]}
    except Exception as e:
        return {'raised': type(e).__name__, 'msg': str(e)[:120]}


def observe(instance, params, inputs):
    if instance.startswith('vod-number['):
        rep, timing = _real_vod(params['name'], inputs)
        return {'refused': 'refused' in _try(rep, timing, inputs['n'], None)}
    if instance.startswith('vod-time['):
        rep, timing = _real_vod(params['name'], inputs)
        entries = tk.expand_timeline(rep.generateSegmentTimeline())
        j = inputs['entry']
        tj = entries[j][0] if j < len(entries) else common.ref_tuple(params['name'])['media_duration']
        return {'refused': 'refused' in _try(rep, timing, None, tj)}
    return None


def replay(case):
    params, inputs, label, inst = case['params'], case['inputs'], case['label'], case['instance']
    try:
        if inst.startswith('index['):
            from dashlive.mpeg.dash.representation import Representation
            atoms, facts = _mk_file(lambda n, lo, hi: inputs[n], params['k'], params['tail'], params['tfdt_mode'])
            rep = Representation.load('file_v1.mp4', atoms)
            segs = rep.segments
            bad = []
            k = params['k']
            ok = len(segs) == k + 1 and segs[0].pos == 0 and segs[0].size == facts['init_end']
            total = 0
            for i, f in enumerate(facts['frags']):
                s = segs[i + 1]
                ok = ok and s.pos == f['pos'] and s.size == f['size'] and s.duration == f['duration']
                total += f['duration']
            last_start = facts['frags'][-1]['time']
            ok = ok and rep.mediaDuration == total and rep.start_number == facts['seq0'] \
                and rep.start_time == facts['t0'] and rep.segment_duration == (last_start - facts['t0']) // (k - 1)
            if not ok:
                bad.append('C06.index')
            sl = rep.generateSegmentList()
            prev = sl.init.end
            lok = sl.init.start == 0 and sl.init.end == facts['init_end'] - 1 and len(sl.media) == k
            for m, f in zip(sl.media, facts['frags']):
                lok = lok and m.start == prev + 1 and m.start == f['pos'] and m.end == f['pos'] + f['size'] - 1
                prev = m.end
            lok = lok and prev == facts['end'] - 1
            if not lok:
                bad.append('C06.list')
            return {'violated': label in bad,
                    'observed': {'segments': [(s.pos, s.size, s.duration) for s in segs], 'start_number': rep.start_number,
                                 'start_time': rep.start_time, 'segment_duration': rep.segment_duration,
                                 'mediaDuration': rep.mediaDuration, 'expected': facts['frags'], 'bad': bad}}
        if inst.startswith('vod-number['):
            rep, timing = _real_vod(params['name'], inputs)
            n, sn, N = inputs['n'], rep.start_number, rep.num_media_segments
            r = _try(rep, timing, n, None)
            inside = sn <= n <= sn + N - 1
            if 'raised' in r:
                return {'violated': True, 'observed': r}
            if 'refused' in r:
                return {'violated': inside, 'observed': {'n': n, 'start_number': sn, 'N': N, 'result': r}}
            ok = inside and r['mod_segment'] == n - sn + 1 and r['origin'] == 0
            return {'violated': not ok, 'observed': {'n': n, 'start_number': sn, 'N': N, 'result': r}}
        if inst.startswith('vod-time['):
            rep, timing = _real_vod(params['name'], inputs)
            entries = tk.expand_timeline(rep.generateSegmentTimeline())
            N = rep.num_media_segments
            ref_tc = common.ref_tuple(params['name'])['media_duration']
            for j in [inputs.get('entry', 0)] + list(range(N + 1)):
                tj = entries[j][0] if j < len(entries) else ref_tc
                r = _try(rep, timing, None, tj)
                if j < N:
                    ok = 'mod_segment' in r and r['mod_segment'] == j + 1 and r['origin'] == 0
                else:
                    ok = 'refused' in r
                if not ok:
                    return {'violated': True, 'observed': {'entry': j, 't': tj, 'start_number': rep.start_number, 'result': r}}
            t = 0
            for (tj, dj, m) in entries:
                if tj != t:
                    return {'violated': True, 'observed': {'gap_at': tj}}
                t += dj
            return {'violated': len(entries) != N or t != ref_tc, 'observed': {'entries': len(entries), 'sum': t, 'ref': ref_tc}}
        if inst.startswith('vod-xref['):
            import json
            from dashlive.mpeg.dash.representation import Representation
            from dashlive.mpeg.dash.timing import DashTiming
            j = json.loads(json.dumps(common.layouts()[params['name']]))
            rep = Representation(**j)
            stored = [s['duration'] for s in j['segments'][1:]]
            timing = DashTiming(tk.ast_real(), _xref_ref(params['name'], inputs['ref_media_duration'], params.get('ref_ts')),
                                common.live_opts(mode='vod'))
            rep.set_dash_timing(timing)
            entries = tk.expand_timeline(rep.generateSegmentTimeline())
            got = [d for (_t, d, _m) in entries]
            starts_ok = all(entries[k][0] == sum(stored[:k]) for k in range(min(len(entries), len(stored))))
            return {'violated': got != stored or not starts_ok,
                    'observed': {'ref_media_duration': inputs['ref_media_duration'], 'stored_media_duration': sum(stored),
                                 'timeline_tail': got[-3:], 'stored_tail': stored[-3:], 'entries': len(got), 'N': len(stored)}}
        # duration
        from fractions import Fraction
        from dashlive.mpeg.dash.reference import StreamTimingReference
        from dashlive.mpeg.dash.timing import DashTiming
        from dashlive.utils.date_time import toIsoDuration, from_isodatetime
        ts = params['ts']
        for delta in [0] + [s * k for k in range(1, 30) for s in (1, -1)]:
            md = inputs['media_duration'] + delta
            if md < 1:
                continue
            ref = StreamTimingReference(media_name='x', media_duration=md, num_media_segments=10, segment_duration=4 * ts, timescale=ts)
            timing = DashTiming(tk.ast_real(), ref, common.live_opts(mode='vod'))
            textv = toIsoDuration(timing.mediaDuration)
            back = from_isodatetime(textv)
            R = (back.days * 86400 + back.seconds) * 1000000 + back.microseconds
            if abs(Fraction(R, 1000000) - Fraction(md, ts)) > Fraction(5, 10000) + Fraction(1, 1000000):
                return {'violated': True, 'observed': {'media_duration': md, 'timescale': ts, 'text': textv, 'parsed_us': R}}
        return {'violated': False, 'observed': {}}
    except Exception as e:
        import traceback
        return {'violated': label == 'C06.exc', 'observed': {'raised': type(e).__name__, 'msg': str(e)[:200],
                                                             'tb': traceback.format_exc()[-400:]}}
