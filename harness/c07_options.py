"""C07 - options given to a manifest reach its media requests with the same meaning.

Pipeline under proof (all real code): option value v -> OptionsContainer.generate_cgi_parameters
(use = VIDEO / AUDIO / TEXT) -> dict_to_cgi_params -> query text -> query decoding of the HTTP
stack (urllib.parse.parse_qsl semantics) -> RequestHandlerBase.calculate_options -> value v'.
Plus the per-option round trip from_string(to_string(v)) == v.
"""
from __future__ import annotations

from . import common

PROPERTY = 'C07'

ASSUMPTIONS = [
    'query decoding of the HTTP stack = urllib.parse.parse_qsl(keep_blank_values=True) (the real function for token text, pysx.urlmodel for symbolic characters, validated against the real one)',
    'integer option values -2**31 .. 2**31 (from the smallest value the option parser accepts: 0 or 1 for the event schedule options); free text (licence URLs) 1..2 (quick) / 1..3 (thorough) arbitrary ASCII characters 32..126; date-times: any calendar instant with microseconds and a UTC offset of whole minutes in [-14h, +14h]',
    'the stream has no stored defaults (stream.defaults is None)',
]
OUTSIDE = ['that each manifest template actually uses adp.initURL / adp.mediaURL',
           'HTML / player options (usage HTML only)', 'non-ASCII free text']

INT_MIN, INT_MAX = -2 ** 31, 2 ** 31
DRMS = ['all', 'playready', 'clearkey', 'marlin', 'playready-moov', 'playready-cenc-pro', 'clearkey-cenc',
        'all-moov', 'all-cenc-pro', 'playready,clearkey', 'marlin,clearkey-moov', 'playready-cenc,clearkey-moov-cenc']
USES = ['VIDEO', 'AUDIO', 'TEXT']


def bounds(tier):
    return {'int_range': [INT_MIN, INT_MAX], 'free_text_len': [1, 2] if tier == 'quick' else [1, 3],
            'drm_selections': DRMS, 'uses': USES}


def OBLIGATIONS(tier):
    return ['C07.rt', 'C07.url', 'C07.errs', 'C07.exc']


def _all_options():
    from dashlive.server.options.repository import OptionsRepository
    return OptionsRepository.get_dash_options()


def _kind(opt):
    """domain kind of an option, derived from its from_string / choices"""
    fs = getattr(opt.from_string, '__name__', '')
    if opt.full_name == 'availabilityStartTime':
        return 'ast'
    if opt.full_name == 'drmSelection':
        return 'drm'
    if fs == 'bool_from_string':
        return 'bool'
    if fs in ('int_or_none_from_string', 'int_or_default'):
        return 'int'
    if fs == 'float_or_none_from_string':
        return 'floatchoice'
    if fs == 'unquoted_url_or_none_from_string':
        return 'url'
    if fs == 'list_without_none_from_string':
        return 'list'
    if fs == '_errors_from_string':
        return 'errors'
    if fs in ('string_or_none', 'default_to_string'):
        return 'string'
    return 'other'


def _choices(opt):
    out = []
    for ch in (opt.cgi_choices or ()):
        v = ch[1] if isinstance(ch, tuple) else ch
        if v is not None:
            out.append(v)
    return out


def _int_floor(opt):
    """smallest legal value of an integer option, read off its own parser: the event schedule
    options refuse negative numbers (and 0 for interval / timescale)"""
    for probe, floor in (('-1', INT_MIN), ('0', 0)):
        try:
            opt.from_string(probe)
            return floor
        except ValueError:
            continue
    return 1


def _sym_value(sx, opt, kind, tier, variant):
    """a symbolic (or path-forked) legal value of the option, in its *parsed* form"""
    from pysx import chars, dt
    if kind == 'bool':
        return bool(sx.bool('v'))
    if kind == 'int':
        return sx.int('v', _int_floor(opt), INT_MAX)
    if kind == 'floatchoice':
        ch = _choices(opt)
        i = sx.int('choice', 0, len(ch))
        i = i.concrete('choice') if not isinstance(i, int) else i
        return None if i == len(ch) else float(ch[i])
    if kind == 'string':
        ch = _choices(opt)
        if ch:
            i = sx.int('choice', 0, len(ch) - 1)
            i = i.concrete('choice') if not isinstance(i, int) else i
            return ch[i]
        n = 1 if tier == 'quick' else 2
        return chars.fresh('v', n, 32, 126)
    if kind == 'url':
        n = variant
        return chars.fresh('v', n, 32, 126)
    if kind == 'list':
        ch = _choices(opt) or ['00:00:20Z', '00:01:05Z']
        out = []
        for c in ch:
            if bool(sx.bool(f'in[{c}]')):
                out.append(c)
        return out
    if kind == 'drm':
        from dashlive.server.options.drm_options import _drm_selection_from_string
        i = sx.int('choice', 0, len(DRMS) - 1)
        i = i.concrete('choice') if not isinstance(i, int) else i
        return _drm_selection_from_string(DRMS[i])
    if kind == 'ast':
        if variant == 'name':
            names = ['year', 'today', 'month', 'epoch', 'now']
            i = sx.int('choice', 0, 4)
            i = i.concrete('choice') if not isinstance(i, int) else i
            return names[i]
        from dashlive.utils.timezone import UTC
        y = sx.int('year', 1971, 2200)
        m = sx.int('month', 1, 12)
        d = sx.int('day', 1, 31)
        sx.assume(dt.days_in_month_ok(y, m, d))
        h, mi, s = sx.int('hour', 0, 23), sx.int('minute', 0, 59), sx.int('second', 0, 59)
        us = sx.int('us', 0, 999999) if variant == 'offset-us' else 0
        tz = UTC() if variant == 'utc' else dt.SymTz(sx.int('offset_minutes', -840, 840))
        return dt.make_datetime(y, m, d, h, mi, s, us, tzinfo=tz)
    raise KeyError(kind)


def _same(a, b):
    """SymBool/bool equality of two option values (ints, strings, lists, datetimes, drm tuples)"""
    from pysx import dt
    from pysx.core import sx_and
    import datetime
    if a is None or b is None:
        return a is None and b is None
    if isinstance(a, (dt.SymDatetime, datetime.datetime)) or isinstance(b, (dt.SymDatetime, datetime.datetime)):
        if not isinstance(a, (dt.SymDatetime, datetime.datetime)) or not isinstance(b, (dt.SymDatetime, datetime.datetime)):
            return False
        sa, sb = dt.as_symdt(a), dt.as_symdt(b)
        if (sa.tzinfo is None) != (sb.tzinfo is None):
            return False
        return sx_and(sa.utc_us() == sb.utc_us(), dt._off_us(sa.tzinfo) == dt._off_us(sb.tzinfo))
    if isinstance(a, (list, tuple)) and isinstance(b, (list, tuple)):
        if len(a) != len(b):
            return False
        return sx_and(*[_same(x, y) for x, y in zip(a, b)])
    if isinstance(a, (set, frozenset)) or isinstance(b, (set, frozenset)):
        return set(a) == set(b)
    r = (a == b)
    return r


def __sx_cat(a, b):
    from pysx import chars
    if isinstance(b, chars.SymChars):
        return chars.mk(chars.as_cps(a) + b.cps)
    from pysx import text
    return a + text.sx_str(b)


def _known_region(kind, v):
    """'@url_plus_or_percent' when a free-text URL value contains '+' or '%' (known finding: the
    option parser URL-decodes text that the HTTP stack has already decoded)"""
    from pysx.chars import SymChars
    if kind == 'string' and isinstance(v, (str, SymChars)):
        # free-text options are written into URLs without quoting (known finding)
        cps = v.cps if isinstance(v, SymChars) else [ord(c) for c in v]
        for c in cps:
            for special in (43, 38, 35, 61, 37, 32, 59):       # + & # = % space ;
                if c == special:
                    return '@unquoted_free_text'
        return ''
    if kind != 'url':
        return ''
    cps = v.cps if isinstance(v, SymChars) else [ord(c) for c in v]
    for c in cps:
        if c == 43 or c == 37:
            return '@url_plus_or_percent'
    return ''


def _set_option(M, opt, v):
    if opt.prefix:
        M[opt.prefix].add_field(opt.full_name, v)
    else:
        M.add_field(opt.full_name, v)


def _get_option(M, opt):
    if opt.prefix:
        return getattr(M[opt.prefix], opt.full_name)
    return getattr(M, opt.full_name)


def h_roundtrip(sx, cgi_name, variant, tier):
    opt = [o for o in _all_options() if o.cgi_name == cgi_name][0]
    kind = _kind(opt)
    v = _sym_value(sx, opt, kind, tier, variant)
    region = _known_region(kind, v)
    label = 'C07.rt' + region
    try:
        t = opt.to_string(v)
        # "parsing that text" includes the query decoding of the HTTP stack
        wire = _decode_query(__sx_cat('x=', t if t is not None else ''))
        back = opt.from_string(wire.get('x', ''))
    except Exception as e:
        sx.fail(label, detail={'option': cgi_name, 'raised': type(e).__name__, 'msg': str(e)[:160], 'value': v})
        return
    sx.prove(_same(back, v), label, detail={'option': cgi_name, 'value': v, 'text': t, 'back': back})
    sx.note('expect', {'text': t})


def _decode_query(qs):
    """the query decoding of the HTTP stack"""
    from pysx import text, urlmodel
    from pysx.chars import SymChars
    import urllib.parse
    if qs[:1] == '?':
        qs = qs[1:]
    if isinstance(qs, SymChars):
        return dict(urlmodel.parse_qsl(qs, keep_blank_values=True))
    return dict(urllib.parse.parse_qsl(qs, keep_blank_values=True))


def h_url(sx, cgi_name, variant, use, tier):
    from pysx.core import sx_and
    from dashlive.server.options.types import OptionUsage
    from dashlive.server.requesthandler.base import RequestHandlerBase
    from dashlive.utils.objects import dict_to_cgi_params
    from . import media_kernel as mk
    opt = [o for o in _all_options() if o.cgi_name == cgi_name][0]
    kind = _kind(opt)
    M = mk.real_options('live', {})
    if opt.prefix in ('playready', 'marlin', 'clearkey'):
        from dashlive.server.options.drm_options import _drm_selection_from_string
        M.add_field('drmSelection', _drm_selection_from_string('all'))
    if opt.prefix in ('ping', 'scte35'):
        M.add_field('eventTypes', [opt.prefix])
    v = _sym_value(sx, opt, kind, tier, variant)
    _set_option(M, opt, v)
    U = OptionUsage.from_string(use)
    try:
        params = M.generate_cgi_parameters(use=U, exclude={'encrypted', 'mode'})
        qs = dict_to_cgi_params(params)
        args = _decode_query(qs) if len(qs) else {}
        M2 = RequestHandlerBase.calculate_options(None, 'live', args, None)
    except Exception as e:
        sx.fail('C07.exc', detail={'option': cgi_name, 'use': use, 'raised': type(e).__name__, 'msg': str(e)[:160], 'value': v})
        return
    sx.prove(True, 'C07.exc')
    applies = (int(opt.usage) & int(U)) != 0
    det = {'option': cgi_name, 'use': use, 'value': v, 'query': qs}
    if applies:
        sx.prove(_same(_get_option(M2, opt), v), 'C07.url' + _known_region(kind, v),
                 detail=dict(det, received=_get_option(M2, opt)))
    else:
        sx.prove(opt.cgi_name not in params, 'C07.url', detail=dict(det, what='option must not be forwarded to this media type'))
    sx.note('expect', {'query': qs})


def h_errs(sx, numeric):
    """verr/aerr specifications translate to segment numbers that the media side parses back"""
    import datetime
    from pysx.core import sx_and
    from dashlive.server.requesthandler.manifest_context import ManifestContext
    from dashlive.server.options.http_error import _errors_from_string
    from . import timing_kernel as tk
    import urllib.parse
    rep = common.make_rep('bbb_v7')
    ast = tk.ast_real()
    code = sx.int('code', 400, 599)
    now = ast + datetime.timedelta(seconds=3600)
    if numeric:
        pos = sx.int('pos', 0, 100000)
    else:
        pos = datetime.time(0, 59, 50, tzinfo=ast.tzinfo)
    try:
        text_ = ManifestContext.calculate_injected_error_segments([(code, pos)], now, ast, 60, rep)
        back = _errors_from_string(urllib.parse.unquote_plus(text_))
    except Exception as e:
        sx.fail('C07.errs', detail={'raised': type(e).__name__, 'msg': str(e)[:160], 'numeric': numeric})
        return
    if numeric:
        want = pos
    else:
        want = (59 * 60 + 50) * rep.timescale // rep.segment_duration
    sx.prove(sx_and(len(back) == 1, back[0][0] == code, back[0][1] == want), 'C07.errs',
             detail={'text': text_, 'back': back, 'want': want})


def _variants(opt, kind, tier):
    if kind == 'ast':
        return ['name', 'utc', 'offset', 'offset-us']
    if kind == 'url':
        return [1, 2] if tier == 'quick' else [1, 2, 3]
    return [None]


def instances(tier):
    out = []
    for opt in _all_options():
        kind = _kind(opt)
        if kind in ('other', 'errors'):
            continue
        for variant in _variants(opt, kind, tier):
            out.append({'name': f'rt[{opt.cgi_name},{variant}]', 'fn': h_roundtrip,
                        'params': {'cgi_name': opt.cgi_name, 'variant': variant, 'tier': tier},
                        'opts': {'max_paths': 20000, 'max_decisions': 2000}})
            if int(opt.usage) & 0x0F:          # manifest / video / audio / text options
                for use in USES:
                    if tier == 'quick' and kind == 'url' and use != 'VIDEO':
                        continue
                    out.append({'name': f'url[{opt.cgi_name},{variant},{use}]', 'fn': h_url,
                                'params': {'cgi_name': opt.cgi_name, 'variant': variant, 'use': use, 'tier': tier},
                                'opts': {'max_paths': 20000, 'max_decisions': 2000}})
    out.append({'name': 'errs[time]', 'fn': h_errs, 'params': {'numeric': False}})
    out.append({'name': 'errs[number]', 'fn': h_errs, 'params': {'numeric': True}})
    return out


# ---------------------------------------------------------------------------
# concrete side

def _real_value(opt, kind, inputs, variant):
    import datetime
    if kind == 'bool':
        return bool(inputs['v'])
    if kind == 'int':
        return inputs['v']
    if kind in ('floatchoice', 'string') and 'choice' in inputs:
        ch = _choices(opt)
        if kind == 'floatchoice':
            return None if inputs['choice'] == len(ch) else float(ch[inputs['choice']])
        return ch[inputs['choice']]
    if kind in ('string', 'url'):
        n = 0
        while f'v[{n}]' in inputs:
            n += 1
        return ''.join(chr(inputs[f'v[{i}]']) for i in range(n))
    if kind == 'list':
        ch = _choices(opt) or ['00:00:20Z', '00:01:05Z']
        return [c for c in ch if inputs.get(f'in[{c}]')]
    if kind == 'drm':
        from dashlive.server.options.drm_options import _drm_selection_from_string
        return _drm_selection_from_string(DRMS[inputs['choice']])
    if kind == 'ast':
        if variant == 'name':
            return ['year', 'today', 'month', 'epoch', 'now'][inputs['choice']]
        from dashlive.utils.timezone import UTC
        tz = UTC() if variant == 'utc' else datetime.timezone(datetime.timedelta(minutes=inputs['offset_minutes']))
        return datetime.datetime(inputs['year'], inputs['month'], inputs['day'], inputs['hour'], inputs['minute'],
                                 inputs['second'], inputs.get('us', 0), tzinfo=tz)
    raise KeyError(kind)


def _eq_real(a, b):
    import datetime
    if isinstance(a, datetime.datetime) and isinstance(b, datetime.datetime):
        if (a.tzinfo is None) != (b.tzinfo is None):
            return False
        return a == b and a.utcoffset() == b.utcoffset()
    return a == b


def observe(instance, params, inputs):
    return None


def replay(case):
    params, inputs, label, inst = case['params'], case['inputs'], case['label'], case['instance']
    import urllib.parse
    try:
        if inst.startswith('errs['):
            import datetime
            from dashlive.server.requesthandler.manifest_context import ManifestContext
            from dashlive.server.options.http_error import _errors_from_string
            from . import timing_kernel as tk
            rep = common.make_rep('bbb_v7')
            ast = tk.ast_real()
            now = ast + datetime.timedelta(seconds=3600)
            pos = inputs['pos'] if params['numeric'] else datetime.time(0, 59, 50, tzinfo=ast.tzinfo)
            try:
                t = ManifestContext.calculate_injected_error_segments([(inputs['code'], pos)], now, ast, 60, rep)
                back = _errors_from_string(urllib.parse.unquote_plus(t))
            except Exception as e:
                return {'violated': True, 'observed': {'raised': type(e).__name__, 'msg': str(e)[:200]}}
            want = pos if params['numeric'] else (59 * 60 + 50) * rep.timescale // rep.segment_duration
            return {'violated': back != [(inputs['code'], want)], 'observed': {'text': t, 'back': back, 'want': want}}
        opt = [o for o in _all_options() if o.cgi_name == params['cgi_name']][0]
        kind = _kind(opt)
        v = _real_value(opt, kind, inputs, params['variant'])
        if inst.startswith('rt['):
            try:
                t = opt.to_string(v)
                wire = dict(urllib.parse.parse_qsl('x=' + str(t if t is not None else ''), keep_blank_values=True))
                back = opt.from_string(wire.get('x', ''))
            except Exception as e:
                return {'violated': True, 'observed': {'value': repr(v), 'raised': type(e).__name__, 'msg': str(e)[:200]}}
            return {'violated': not _eq_real(back, v), 'observed': {'value': repr(v), 'text': t, 'back': repr(back)}}
        from dashlive.server.options.types import OptionUsage
        from dashlive.server.requesthandler.base import RequestHandlerBase
        from dashlive.utils.objects import dict_to_cgi_params
        from . import media_kernel as mk
        M = mk.real_options('live', {})
        if opt.prefix in ('playready', 'marlin', 'clearkey'):
            from dashlive.server.options.drm_options import _drm_selection_from_string
            M.add_field('drmSelection', _drm_selection_from_string('all'))
        if opt.prefix in ('ping', 'scte35'):
            M.add_field('eventTypes', [opt.prefix])
        _set_option(M, opt, v)
        U = OptionUsage.from_string(params['use'])
        try:
            p = M.generate_cgi_parameters(use=U, exclude={'encrypted', 'mode'})
            qs = dict_to_cgi_params(p)
            args = dict(urllib.parse.parse_qsl(qs[1:], keep_blank_values=True)) if qs else {}
            M2 = RequestHandlerBase.calculate_options(None, 'live', args, None)
        except Exception as e:
            return {'violated': True, 'observed': {'value': repr(v), 'raised': type(e).__name__, 'msg': str(e)[:200]}}
        applies = (int(opt.usage) & int(U)) != 0
        if applies:
            got = _get_option(M2, opt)
            return {'violated': not _eq_real(got, v), 'observed': {'value': repr(v), 'query': qs, 'received': repr(got)}}
        return {'violated': opt.cgi_name in p, 'observed': {'query': qs}}
    except Exception as e:
        import traceback
        return {'violated': True, 'observed': {'raised': type(e).__name__, 'msg': str(e)[:200],
                                               'tb': traceback.format_exc()[-400:]}}
