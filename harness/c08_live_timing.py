"""C08 - live timing parameters are coherent for every clock and option.

Encoded: DashTiming.__init__ / calculate_live_params / generate_manifest_context on a fully
symbolic calendar instant (year, month, day, hour, minute, second, microsecond are solver
variables; calendar arithmetic is relational, DESIGN.md 2.2).
"""
from __future__ import annotations

from . import common

PROPERTY = 'C08'
STARTS = ['epoch', 'today', 'month', 'year', 'now', 'explicit', 'explicit_frac']
MUPS = [None, -1, 0, 1, 2, 4, 7, 30, 3600]
REFS = ['bbb_v7', 'bbb_a1', 'syn_10mhz', 'syn_1hz']

ASSUMPTIONS = [
    'now is any valid calendar instant 1971-01-01 .. 2200-12-31 (UTC) with microseconds',
    'an explicit availabilityStartTime is any instant 1970-01-01 <= AST <= now (UTC)',
    'timeShiftBufferDepth option: any integer 0 .. 2**31 (None/0 select the default); leeway unused here',
    'minimumUpdatePeriod option from the catalogue ' + repr(MUPS) + ' (it divides a symbolic value)',
    'timing reference (segment_duration, timescale) from the layout catalogue',
]
OUTSIDE = ['non-UTC explicit start offsets (covered by C07/C19 round trips)',
           'minimumUpdatePeriod values outside the catalogue']


def bounds(tier):
    return {'years': [1971, 2200], 'depth': [0, 2 ** 31], 'mup': MUPS,
            'refs': REFS if tier == 'thorough' else REFS[:2], 'starts': STARTS}


def OBLIGATIONS(tier):
    return ['C08.ast', 'C08.pub', 'C08.depth', 'C08.first', 'C08.mup.grid', 'C08.age',
            'C08.mono', 'C08.day', 'C08.exc']


def _sym_instant(sx, tag, ymin=1971, ymax=2200, frac=True, share_ymd=None, concrete_month=False):
    from pysx import dt
    from dashlive.utils.timezone import UTC
    if share_ymd is None:
        y = sx.int(f'{tag}.year', ymin, ymax)
        m = sx.int(f'{tag}.month', 1, 12)
        if concrete_month:
            m = m.concrete('month')
        d = sx.int(f'{tag}.day', 1, 31)
        sx.assume(dt.days_in_month_ok(y, m, d))
    else:
        y, m, d = share_ymd
    h = sx.int(f'{tag}.hour', 0, 23)
    mi = sx.int(f'{tag}.minute', 0, 59)
    s = sx.int(f'{tag}.second', 0, 59)
    us = sx.int(f'{tag}.us', 0, 999999) if frac else 0
    now = dt.make_datetime(y, m, d, h, mi, s, us, tzinfo=UTC())
    return now, (y, m, d)


def _sym_ast(sx, frac):
    """explicit availabilityStartTime: any UTC instant >= 1970-01-01 given directly as a
    microsecond count (no calendar fields are needed by the code under check)."""
    from pysx import dt
    from dashlive.utils.timezone import UTC
    secs = sx.int('ast.epoch_seconds', 0, 7300000000)
    us = sx.int('ast.us', 0, 999999) if frac else 0
    return dt.SymDatetime(dt.EPOCH_US + secs * 1000000 + us, UTC())


def _us(x):
    """UTC microseconds (int/SymInt) of a real or symbolic aware datetime, since ordinal 0."""
    from pysx import dt
    return dt.as_symdt(x).utc_us()


def _td_us(x):
    from pysx import dt
    return dt.td_us(x)


def _run_timing(sx, now, start, mup, depth, ref, ast=None):
    from dashlive.mpeg.dash.timing import DashTiming
    if start.startswith('explicit'):
        opt_start = ast
    else:
        opt_start = start
    opts = common.live_opts(availabilityStartTime=opt_start, timeShiftBufferDepth=depth,
                            minimumUpdatePeriod=mup)
    return DashTiming(now, common.make_ref(ref), opts)


def h_single(sx, start, mup, ref, neg_depth=False):
    from pysx.core import sx_and, sx_implies
    now, _ = _sym_instant(sx, 'now')
    if neg_depth:
        depth = sx.int('depth', -2 ** 31, -1)
    else:
        depth = sx.int('depth', 0, 2 ** 31)
    ast = None
    if start.startswith('explicit'):
        ast = _sym_ast(sx, frac=(start == 'explicit_frac'))
        sx.assume(ast <= now)
    sx.note('start', start)
    try:
        t = _run_timing(sx, now, start, mup, depth, ref, ast)
    except Exception as e:
        sx.fail('C08.exc', detail={'raised': type(e).__name__, 'msg': str(e)[:100]})
        return
    sx.prove(True, 'C08.exc')
    now_us = _us(now)
    ast_us = _us(t.availabilityStartTime)
    pub_us = _us(t.publishTime)
    el_us = _td_us(t.elapsedTime)
    tsbd = t.timeShiftBufferDepth
    sx.note('expect', {'ast': t.availabilityStartTime, 'publishTime': t.publishTime,
                       'tsbd': tsbd, 'elapsed': t.elapsedTime, 'mup': t.minimumUpdatePeriod,
                       'first': t.firstAvailableTime})
    det = {'now': now, 'ast': t.availabilityStartTime, 'publishTime': t.publishTime, 'tsbd': tsbd,
           'elapsed': t.elapsedTime, 'first': t.firstAvailableTime}
    sx.prove(sx_and(ast_us <= now_us, el_us == now_us - ast_us), 'C08.ast', detail=det)
    from pysx.core import sx_divmod
    sx.prove(sx_and(ast_us <= pub_us, pub_us <= now_us, sx_divmod(pub_us, 1000000)[1] == 0),
             'C08.pub', detail=det)
    sx.prove(sx_and(0 <= tsbd, tsbd * 1000000 <= el_us), 'C08.depth', detail=det)
    first_us = _td_us(t.firstAvailableTime)
    sx.prove(sx_and(first_us == el_us - tsbd * 1000000, first_us >= 0), 'C08.first', detail=det)
    p = t.minimumUpdatePeriod
    if p is not None:
        q, r = sx_divmod(pub_us - ast_us, p * 1000000)
        sx.prove(sx_and(p > 0, r == 0, now_us - pub_us < (p + 1) * 1000000), 'C08.mup.grid', detail=det)
    else:
        sx.prove(mup is not None and mup <= 0, 'C08.mup.grid', detail=det)
    if not start.startswith('explicit'):
        sx.prove(el_us >= 60 * 1000000, 'C08.age', detail=det)
    else:
        sx.prove(True, 'C08.age')


def _next_day(sx, y, m, d):
    """calendar successor of (y, m, d), by case split (no second relational calendar)."""
    from pysx import dt
    if dt.days_in_month_ok(y, m, d + 1):
        return y, m, d + 1
    if m < 12:
        return y, m + 1, 1
    return y + 1, 1, 1


def h_mono(sx, start, mup, ref):
    """now1 <= now2 <= now1 + 1 day: publishTime and AST never decrease.  Monotonicity over
    every span of at most one day gives monotonicity over any span by transitivity (chain
    a <= a + 1d <= ... <= b), so the one-day window loses nothing.  now2 lies on the same or
    the next calendar day of now1 (case split), with its own symbolic time of day."""
    from pysx.core import sx_and
    now1, ymd1 = _sym_instant(sx, 'now1')
    if bool(sx.bool('now2.next_day')):
        ymd2 = _next_day(sx, *ymd1)
    else:
        ymd2 = ymd1
    now2, _ = _sym_instant(sx, 'now2', share_ymd=ymd2)
    sx.assume(now1 <= now2)
    sx.assume(_us(now2) - _us(now1) <= 86400 * 1000000,
              'C08.mono: now2 - now1 <= 1 day (longer spans follow by transitivity)')
    depth = sx.int('depth', 0, 2 ** 31)
    ast = None
    if start.startswith('explicit'):
        ast = _sym_ast(sx, frac=False)
        sx.assume(ast <= now1)
    t1 = _run_timing(sx, now1, start, mup, depth, ref, ast)
    t2 = _run_timing(sx, now2, start, mup, depth, ref, ast)
    det = {'now1': now1, 'now2': now2, 'pub1': t1.publishTime, 'pub2': t2.publishTime,
           'ast1': t1.availabilityStartTime, 'ast2': t2.availabilityStartTime}
    # known finding region: a named start (today / month / year) resolved to a *different*
    # instant for the two requests (the first minute / day belongs to the previous period);
    # publishTime = AST + k * mup then restarts on a new grid and can step back by < mup
    region = ''
    if not start.startswith('explicit') and start not in ('epoch', 'now') and \
            bool(_us(t1.availabilityStartTime) != _us(t2.availabilityStartTime)):
        region = '@named_start_switch'
    sx.prove(sx_and(_us(t1.publishTime) <= _us(t2.publishTime),
                    _us(t1.availabilityStartTime) <= _us(t2.availabilityStartTime)),
             'C08.mono' + region, detail=det)


def h_day(sx, start, mup, ref):
    """two instants of one UTC day, both >= 00:01:00: the symbolic starts resolve identically."""
    from pysx.core import sx_and
    now1, ymd = _sym_instant(sx, 'now1')
    now2, _ = _sym_instant(sx, 'now2', share_ymd=ymd)
    sx.assume(now1.hour * 60 + now1.minute >= 1)
    sx.assume(now2.hour * 60 + now2.minute >= 1)
    depth = sx.int('depth', 0, 2 ** 31)
    t1 = _run_timing(sx, now1, start, mup, depth, ref)
    t2 = _run_timing(sx, now2, start, mup, depth, ref)
    det = {'now1': now1, 'now2': now2, 'ast1': t1.availabilityStartTime, 'ast2': t2.availabilityStartTime}
    if start == 'now':
        sx.prove(sx_and(_us(t1.availabilityStartTime) == _us(now1.replace(microsecond=0)) - 60 * 1000000,
                        _us(t2.availabilityStartTime) == _us(now2.replace(microsecond=0)) - 60 * 1000000),
                 'C08.day', detail=det)
    else:
        sx.prove(_us(t1.availabilityStartTime) == _us(t2.availabilityStartTime), 'C08.day', detail=det)


def instances(tier):
    B = bounds(tier)
    out = []
    for start in STARTS:
        for mup in MUPS:
            refs = B['refs'] if mup is None else B['refs'][:1]
            for ref in refs:
                out.append({'name': f'single[{start},mup={mup},{ref}]', 'fn': h_single,
                            'params': {'start': start, 'mup': mup, 'ref': ref},
                            'opts': {'query_timeout_ms': 30000}})
    for start in ('epoch', 'now', 'explicit'):
        out.append({'name': f'single[{start},negative-depth]', 'fn': h_single,
                    'params': {'start': start, 'mup': None, 'ref': 'bbb_v7', 'neg_depth': True}})
    mono_mups = [None, 4, -1] if tier == 'quick' else MUPS
    for start in ['epoch', 'today', 'month', 'year', 'now', 'explicit']:
        for mup in mono_mups:
            out.append({'name': f'mono[{start},mup={mup}]', 'fn': h_mono, 'weight': 3,
                        'params': {'start': start, 'mup': mup, 'ref': 'bbb_v7'},
                        'opts': {'query_timeout_ms': 30000}})
    for start in ['epoch', 'today', 'month', 'year', 'now']:
        out.append({'name': f'day[{start}]', 'fn': h_day, 'weight': 2,
                    'params': {'start': start, 'mup': None, 'ref': 'bbb_v7'},
                    'opts': {'query_timeout_ms': 30000}})
    return out


# ---------------------------------------------------------------------------
# concrete side

def _real_instant(inputs, tag, share=None):
    import datetime
    from dashlive.utils.timezone import UTC
    src = share or tag
    return datetime.datetime(inputs[f'{src}.year'], inputs[f'{src}.month'], inputs[f'{src}.day'],
                             inputs[f'{tag}.hour'], inputs[f'{tag}.minute'], inputs[f'{tag}.second'],
                             inputs.get(f'{tag}.us', 0), tzinfo=UTC())


def _real_ast(inputs):
    return common.dt_from_us(inputs['ast.epoch_seconds'] * 1000000 + inputs.get('ast.us', 0))


def _real_timing(now, start, mup, depth, ref, ast=None):
    from dashlive.mpeg.dash.timing import DashTiming
    opts = common.live_opts(availabilityStartTime=(ast if start.startswith('explicit') else start),
                            timeShiftBufferDepth=depth, minimumUpdatePeriod=mup)
    return DashTiming(now, common.make_ref(ref), opts)


def _check_single(t, now, start, mup):
    import datetime
    bad = []
    ast, pub = t.availabilityStartTime, t.publishTime
    el = t.elapsedTime
    if not (ast <= now and el == now - ast):
        bad.append('C08.ast')
    if not (ast <= pub <= now and pub.microsecond == 0):
        bad.append('C08.pub')
    if not (0 <= t.timeShiftBufferDepth and datetime.timedelta(seconds=t.timeShiftBufferDepth) <= el):
        bad.append('C08.depth')
    if not (t.firstAvailableTime == el - datetime.timedelta(seconds=t.timeShiftBufferDepth)
            and t.firstAvailableTime >= datetime.timedelta(0)):
        bad.append('C08.first')
    p = t.minimumUpdatePeriod
    if p is not None:
        if not (p > 0 and (pub - ast) % datetime.timedelta(seconds=p) == datetime.timedelta(0)
                and now - pub < datetime.timedelta(seconds=p + 1)):
            bad.append('C08.mup.grid')
    elif not (mup is not None and mup <= 0):
        bad.append('C08.mup.grid')
    if not start.startswith('explicit') and el < datetime.timedelta(seconds=60):
        bad.append('C08.age')
    return bad


def observe(instance, params, inputs):
    if not instance.startswith('single['):
        return None
    now = _real_instant(inputs, 'now')
    ast = _real_ast(inputs) if params['start'].startswith('explicit') else None
    t = _real_timing(now, params['start'], params['mup'], inputs['depth'], params['ref'], ast)
    us = lambda d: f'{(d.days * 86400 + d.seconds) * 1000000 + d.microseconds}us'
    return {'ast': t.availabilityStartTime.isoformat(), 'publishTime': t.publishTime.isoformat(),
            'tsbd': t.timeShiftBufferDepth, 'elapsed': us(t.elapsedTime), 'mup': t.minimumUpdatePeriod,
            'first': us(t.firstAvailableTime)}


def replay(case):
    params, inputs, label = case['params'], case['inputs'], case['label']
    inst = case['instance']
    try:
        if inst.startswith('single['):
            now = _real_instant(inputs, 'now')
            ast = _real_ast(inputs) if params['start'].startswith('explicit') else None
            t = _real_timing(now, params['start'], params['mup'], inputs['depth'], params['ref'], ast)
            bad = _check_single(t, now, params['start'], params['mup'])
            return {'violated': label in bad,
                    'observed': {'now': now.isoformat(), 'ast': t.availabilityStartTime.isoformat(),
                                 'publishTime': t.publishTime.isoformat(), 'tsbd': t.timeShiftBufferDepth,
                                 'mup': t.minimumUpdatePeriod, 'first': str(t.firstAvailableTime),
                                 'violated_obligations': bad}}
        if inst.startswith('mono['):
            now1 = _real_instant(inputs, 'now1')
            import datetime
            day2 = now1 + datetime.timedelta(days=1) if inputs.get('now2.next_day') else now1
            now2 = day2.replace(hour=inputs['now2.hour'], minute=inputs['now2.minute'],
                                second=inputs['now2.second'], microsecond=inputs.get('now2.us', 0))
            ast = _real_ast(inputs) if params['start'].startswith('explicit') else None
            t1 = _real_timing(now1, params['start'], params['mup'], inputs['depth'], params['ref'], ast)
            t2 = _real_timing(now2, params['start'], params['mup'], inputs['depth'], params['ref'], ast)
            v = not (t1.publishTime <= t2.publishTime and t1.availabilityStartTime <= t2.availabilityStartTime)
            return {'violated': v, 'observed': {'now1': now1.isoformat(), 'now2': now2.isoformat(),
                                                'pub1': t1.publishTime.isoformat(), 'pub2': t2.publishTime.isoformat(),
                                                'ast1': t1.availabilityStartTime.isoformat(),
                                                'ast2': t2.availabilityStartTime.isoformat()}}
        now1 = _real_instant(inputs, 'now1')
        now2 = _real_instant(inputs, 'now2', share='now1')
        t1 = _real_timing(now1, params['start'], params['mup'], inputs['depth'], params['ref'])
        t2 = _real_timing(now2, params['start'], params['mup'], inputs['depth'], params['ref'])
        import datetime
        if params['start'] == 'now':
            v = not (t1.availabilityStartTime == now1.replace(microsecond=0) - datetime.timedelta(seconds=60)
                     and t2.availabilityStartTime == now2.replace(microsecond=0) - datetime.timedelta(seconds=60))
        else:
            v = t1.availabilityStartTime != t2.availabilityStartTime
        return {'violated': v, 'observed': {'now1': now1.isoformat(), 'now2': now2.isoformat(),
                                            'ast1': t1.availabilityStartTime.isoformat(),
                                            'ast2': t2.availabilityStartTime.isoformat()}}
    except Exception as e:
        return {'violated': label == 'C08.exc', 'observed': {'raised': type(e).__name__, 'msg': str(e)[:200]}}
