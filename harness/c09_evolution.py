"""C09 - successive manifests and MPD patches evolve consistently (timeline / anchor part).

Two executions of the manifest side (DashTiming + generateSegmentTimeline) at symbolic instants
T1 < T2 with one option vector, and the PatchLocation arithmetic of ManifestContext.__init__
(publish = int(publishTime.timestamp()), ttl = max(depth, ceil(minimumUpdatePeriod))) together
with the patch endpoint's  datetime.fromtimestamp(publish, tz=UTC()).
"""
from __future__ import annotations

import types

from . import common
from . import timing_kernel as tk

PROPERTY = 'C09'
US = 1_000_000
MUPS = [None, 2, 8, 30, 0, -1]

ASSUMPTIONS = [
    'T1 = AST + base + eps1, T2 = T1 + delta with delta any microsecond in (0, 3 loops of the reference]; explicit availabilityStartTime (symbolic starts: C08)',
    'ManifestContext.__init__ runs with create_period replaced by its timing part (option write-back + update_timing); database rows and URL routing are stand-ins',
    'the patch endpoint expression datetime.fromtimestamp(publish, tz=UTC()) is restated in the harness',
]
OUTSIDE = ['applying the XML patch operations to the T1 document (template text, XPath)',
           'symbolic start values re-resolving across midnight (C08 proves they only move forward)']

Q_PAIRS = [('bbb_v7', 'bbb_v7'), ('bbb_a1', 'bbb_v7'), ('syn_short_last', 'syn_short_last')]
# thorough catalogue sized by wall time (7 pairs x 6 bases x 4 periods at depth 60 ran past 30 minutes)
T_PAIRS = Q_PAIRS + [('bbb_t1', 'bbb_v7'), ('syn_irregular', 'syn_irregular')]
Q_BASES = ['65s', '1h', '1d-20s']
T_BASES = ['65s', '1h', '1d-20s', '1y']


def bounds(tier):
    return {'pairs': Q_PAIRS if tier == 'quick' else T_PAIRS, 'base_instants': Q_BASES if tier == 'quick' else T_BASES,
            'depth_s': [1, 12] if tier == 'quick' else [1, 20], 'delta': '(0, 3 loops]', 'mup': MUPS}


def OBLIGATIONS(tier):
    return ['C09.common', 'C09.forward', 'C09.pubmono', 'C09.anchor', 'C09.ttl']


def _loop_us(ref_name):
    r = common.ref_tuple(ref_name)
    return -(-r['media_duration'] * US // r['timescale'])


def _timeline(now, rep_name, ref_name, depth, mup):
    mt, _ = tk.manifest_timing(now, ref_name, depth, mup=mup)
    rep = common.make_rep(rep_name)
    rep.set_dash_timing(mt)
    return mt, tk.expand_timeline(rep.generateSegmentTimeline())


def h_pair(sx, rep_name, ref_name, base, depth_max, mup):
    from pysx import dt
    from pysx.core import sx_and, sx_or, sx_implies
    loop = _loop_us(ref_name)
    eps = sx.int('eps_us', 0, loop - 1)
    delta = sx.int('delta_us', 1, 3 * loop if depth_max > 20 else 2 * loop)
    depth = sx.int('depth', 1, depth_max)
    e1 = tk.base_seconds(base, rep_name) * US + eps
    e2 = e1 + delta
    t1, tl1 = _timeline(tk.now_from_elapsed_us(e1), rep_name, ref_name, depth, mup)
    t2, tl2 = _timeline(tk.now_from_elapsed_us(e2), rep_name, ref_name, depth, mup)
    us = lambda d: dt.as_symdt(d).utc_us()
    sx.prove(sx_and(us(t1.publishTime) <= us(t2.publishTime),
                    us(t1.availabilityStartTime) == us(t2.availabilityStartTime)), 'C09.pubmono',
             detail={'pub1': t1.publishTime, 'pub2': t2.publishTime})
    if not tl1 or not tl2:
        sx.prove(bool(tl1) == bool(tl2) or True, 'C09.forward')
        return
    # the listed window only moves forward
    sx.prove(sx_and(tl2[0][0] >= tl1[0][0], tl2[-1][0] >= tl1[-1][0]), 'C09.forward',
             detail={'first1': tl1[0][0], 'first2': tl2[0][0], 'last1': tl1[-1][0], 'last2': tl2[-1][0]})
    # a start time listed by both manifests has the same duration in both
    conds = []
    for (ta, da, _) in tl1:
        for (tb, db, _) in tl2:
            if isinstance(da, int) and isinstance(db, int) and da == db:
                continue
            conds.append(sx_implies(ta == tb, da == db))
    # and both timelines are grids over the same segment boundaries: an entry of T2 that starts inside
    # the span of T1 starts exactly on a T1 boundary
    lo, hi = tl1[0][0], tl1[-1][0] + tl1[-1][1]
    for (tb, db, _) in tl2:
        on_boundary = sx_or(*([tb == ta for (ta, _, _) in tl1] + [tb == hi]))
        conds.append(sx_implies(sx_and(tb >= lo, tb <= hi), on_boundary))
    sx.prove(sx_and(*conds), 'C09.common',
             detail={'timeline1': [(a, b) for a, b, _ in tl1][:6], 'timeline2': [(a, b) for a, b, _ in tl2][:6]})
    sx.note('expect', {'n1': len(tl1), 'n2': len(tl2)})


def _run_manifest_context(now, ref_name, args):
    """the real ManifestContext.__init__ with create_period reduced to its timing part"""
    from pysx import env
    from pysx.core import ctx
    import dashlive.server.requesthandler.manifest_context as mc
    from . import media_kernel as mk
    env.flask_env.reset()
    ctx().env['now'] = lambda tz=None: now
    opts = mk.real_options('live', args, availabilityStartTime=tk.ast_real())
    opts.update(patch=True, segmentTimeline=True)

    def create_period(self, stream, timing, db_period):
        if timing:
            self.options.availabilityStartTime = timing.availabilityStartTime
            self.options.timeShiftBufferDepth = timing.timeShiftBufferDepth
            self.update_timing(timing)
        self.cgi_params = types.SimpleNamespace(patch={}, manifest={}, video={}, audio={}, text={}, time={})
        return types.SimpleNamespace(id='p0')
    saved = mc.ManifestContext.create_period
    mc.ManifestContext.create_period = create_period
    try:
        stream = types.SimpleNamespace(directory='bbb', title='t', timing_reference=common.make_ref(ref_name))
        manifest = types.SimpleNamespace(name='hand_made.mpd')
        m = mc.ManifestContext(options=opts, manifest=manifest, stream=stream, multi_period=None)
    finally:
        mc.ManifestContext.create_period = saved
    return m


def h_anchor(sx, ref_name, base, mup):
    from pysx import dt, text
    from pysx.core import sx_and
    from dashlive.utils.timezone import UTC
    import datetime as real_dt
    loop = _loop_us(ref_name)
    eps = sx.int('eps_us', 0, loop - 1)
    depth = sx.int('depth', 0, 1800)
    e1 = tk.base_seconds(base, ref_name) * US + eps
    now = tk.now_from_elapsed_us(e1)
    args = {'depth': str(1)}      # replaced below by the symbolic value
    if mup is not None:
        args['mup'] = str(mup)
    try:
        from . import media_kernel as mk
        m = None
        from pysx import env
        # depth must be symbolic: build options first, then override the field
        import dashlive.server.requesthandler.manifest_context as mc   # noqa: F401
        m = _run_manifest_context_sym(now, ref_name, args, depth)
    except Exception as e:
        sx.fail('C09.ttl', detail={'raised': type(e).__name__, 'msg': str(e)[:160], 'mup': mup})
        return
    patch = m.patch
    if patch is None:
        sx.fail('C09.anchor', detail={'what': 'no PatchLocation although patches are enabled'})
        return
    # ttl is defined and covers the update period and the buffer depth
    tsbd = m.timeShiftBufferDepth
    ttl = patch.ttl
    mup_eff = m.minimumUpdatePeriod
    sx.prove(sx_and(ttl >= tsbd, ttl >= (mup_eff if mup_eff is not None else 0)), 'C09.ttl',
             detail={'ttl': ttl, 'tsbd': tsbd, 'mup': mup_eff})
    # the publish value in the location is publishTime(T1) to the second and survives fromtimestamp()
    loc = patch.location
    pieces = text.split_tokens(loc) if text.has_token(loc) else [loc]
    pub = None
    for i, p in enumerate(pieces):
        if isinstance(p, str) and p.endswith('publish=') and i + 1 < len(pieces):
            pub = pieces[i + 1].x
    if pub is None:
        import re
        mm = re.search(r'publish=(\d+)', loc)
        pub = int(mm.group(1)) if mm else None
    if pub is None:
        sx.fail('C09.anchor', detail={'location': loc})
        return
    back = dt.sx_datetime.fromtimestamp(pub, tz=UTC())
    sx.prove(dt.as_symdt(back).utc_us() == dt.as_symdt(m.publishTime).utc_us(), 'C09.anchor',
             detail={'publish': pub, 'publishTime': m.publishTime, 'original_publish_time': back})
    sx.note('expect', {'ttl': ttl})


def _run_manifest_context_sym(now, ref_name, args, depth):
    from pysx import env
    from pysx.core import ctx
    import dashlive.server.requesthandler.manifest_context as mc
    from . import media_kernel as mk
    env.flask_env.reset()
    ctx().env['now'] = lambda tz=None: now
    opts = mk.real_options('live', args, availabilityStartTime=tk.ast_real())
    opts.update(patch=True, segmentTimeline=True)
    opts.add_field('timeShiftBufferDepth', depth)

    def create_period(self, stream, timing, db_period):
        if timing:
            self.options.availabilityStartTime = timing.availabilityStartTime
            self.options.timeShiftBufferDepth = timing.timeShiftBufferDepth
            self.update_timing(timing)
        self.cgi_params = types.SimpleNamespace(patch={}, manifest={}, video={}, audio={}, text={}, time={})
        return types.SimpleNamespace(id='p0')
    saved = mc.ManifestContext.create_period
    mc.ManifestContext.create_period = create_period
    try:
        stream = types.SimpleNamespace(directory='bbb', title='t', timing_reference=common.make_ref(ref_name))
        manifest = types.SimpleNamespace(name='hand_made.mpd')
        return mc.ManifestContext(options=opts, manifest=manifest, stream=stream, multi_period=None)
    finally:
        mc.ManifestContext.create_period = saved


def instances(tier):
    pairs = Q_PAIRS if tier == 'quick' else T_PAIRS
    bases = Q_BASES if tier == 'quick' else T_BASES
    dmax = 12 if tier == 'quick' else 20
    out = []
    for rep_name, ref_name in pairs:
        for base in bases:
            for mup in ([None, 8] if tier == 'quick' else [None, 2, 8]):
                out.append({'name': f'pair[{rep_name}/{ref_name},{base},mup={mup}]', 'fn': h_pair, 'weight': 4,
                            'params': {'rep_name': rep_name, 'ref_name': ref_name, 'base': base, 'depth_max': dmax, 'mup': mup},
                            'opts': {'max_paths': 60000, 'max_decisions': 4000, 'fork_limit': 200}})
    for base in bases:
        for mup in MUPS:
            out.append({'name': f'anchor[bbb_v7,{base},mup={mup}]', 'fn': h_anchor,
                        'params': {'ref_name': 'bbb_v7', 'base': base, 'mup': mup}})
    return out


# ---------------------------------------------------------------------------
# concrete side

def observe(instance, params, inputs):
    if not instance.startswith('pair['):
        return None
    e1 = tk.base_seconds(params['base'], params['rep_name']) * US + inputs['eps_us']
    e2 = e1 + inputs['delta_us']
    t1, tl1 = _timeline(tk.now_from_elapsed_us(e1), params['rep_name'], params['ref_name'], inputs['depth'], params['mup'])
    t2, tl2 = _timeline(tk.now_from_elapsed_us(e2), params['rep_name'], params['ref_name'], inputs['depth'], params['mup'])
    return {'n1': len(tl1), 'n2': len(tl2)}


def replay(case):
    params, inputs, label, inst = case['params'], case['inputs'], case['label'], case['instance']
    try:
        if inst.startswith('pair['):
            e1 = tk.base_seconds(params['base'], params['rep_name']) * US + inputs['eps_us']
            e2 = e1 + inputs['delta_us']
            t1, tl1 = _timeline(tk.now_from_elapsed_us(e1), params['rep_name'], params['ref_name'], inputs['depth'], params['mup'])
            t2, tl2 = _timeline(tk.now_from_elapsed_us(e2), params['rep_name'], params['ref_name'], inputs['depth'], params['mup'])
            bad = []
            if not (t1.publishTime <= t2.publishTime and t1.availabilityStartTime == t2.availabilityStartTime):
                bad.append('C09.pubmono')
            if tl1 and tl2:
                if not (tl2[0][0] >= tl1[0][0] and tl2[-1][0] >= tl1[-1][0]):
                    bad.append('C09.forward')
                d1 = {t: d for t, d, _ in tl1}
                bounds1 = set(d1) | {tl1[-1][0] + tl1[-1][1]}
                lo, hi = tl1[0][0], tl1[-1][0] + tl1[-1][1]
                for t, d, _ in tl2:
                    if (t in d1 and d1[t] != d) or (lo <= t <= hi and t not in bounds1):
                        bad.append('C09.common')
                        break
            return {'violated': label in bad,
                    'observed': {'elapsed1_us': e1, 'elapsed2_us': e2, 'timeline1': [(a, b) for a, b, _ in tl1][:8],
                                 'timeline2': [(a, b) for a, b, _ in tl2][:8], 'bad': bad}}
        # anchor / ttl on the real ManifestContext
        import datetime
        import flask
        import re
        import dashlive.server.requesthandler.manifest_context as mc
        from dashlive.utils.timezone import UTC
        from . import media_kernel as mk
        e1 = tk.base_seconds(params['base'], params['ref_name']) * US + inputs['eps_us']
        now = tk.now_from_elapsed_us(e1)
        app = flask.Flask('c09')
        app.add_url_rule('/patch/<stream>/<manifest>/<int:publish>', 'mpd-patch', lambda **k: '')
        args = {}
        if params['mup'] is not None:
            args['mup'] = str(params['mup'])

        def create_period(self, stream, timing, db_period):
            if timing:
                self.options.availabilityStartTime = timing.availabilityStartTime
                self.options.timeShiftBufferDepth = timing.timeShiftBufferDepth
                self.update_timing(timing)
            self.cgi_params = types.SimpleNamespace(patch={}, manifest={}, video={}, audio={}, text={}, time={})
            return types.SimpleNamespace(id='p0')
        saved = mc.ManifestContext.create_period
        mc.ManifestContext.create_period = create_period
        try:
            with app.test_request_context('/'):
                with common.FrozenClock(mc, now):
                    opts = mk.real_options('live', args, availabilityStartTime=tk.ast_real())
                    opts.update(patch=True, segmentTimeline=True)
                    opts.add_field('timeShiftBufferDepth', inputs['depth'])
                    stream = types.SimpleNamespace(directory='bbb', title='t', timing_reference=common.make_ref(params['ref_name']))
                    m = mc.ManifestContext(options=opts, manifest=types.SimpleNamespace(name='hand_made.mpd'),
                                           stream=stream, multi_period=None)
        finally:
            mc.ManifestContext.create_period = saved
        if m.patch is None:
            return {'violated': True, 'observed': {'patch': None}}
        pub = int(re.search(r'/(\d+)(\?|$)', m.patch.location).group(1))
        back = datetime.datetime.fromtimestamp(pub, tz=UTC())
        bad = []
        if back != m.publishTime:
            bad.append('C09.anchor')
        if not (m.patch.ttl >= m.timeShiftBufferDepth and m.patch.ttl >= (m.minimumUpdatePeriod or 0)):
            bad.append('C09.ttl')
        return {'violated': label in bad, 'observed': {'location': m.patch.location, 'ttl': m.patch.ttl,
                                                       'publishTime': m.publishTime.isoformat(), 'bad': bad}}
    except Exception as e:
        import traceback
        return {'violated': True, 'observed': {'raised': type(e).__name__, 'msg': str(e)[:200],
                                               'tb': traceback.format_exc()[-500:]}}
