"""C10 - init segments carry exactly the requested protection data, nothing else changes.

The real MediaRequestBase.generate_init_segment runs on a stored fixture init segment whose
content bytes are solver variables; DRM selection strings go through the real option parser and
DrmContext; the PlayReady Object payload is an opaque symbolic blob (its content is outside this
property).  An independent box walker compares the served bytes with the stored ones.
"""
from __future__ import annotations

import types

from . import common
from . import media_kernel as mk
from . import mp4_kernel as mkx

PROPERTY = 'C10'
KEY_HEX = '533a583a843436a536fbe2a5821c4b6c'
PRO_LEN = 24

ASSUMPTIONS = [
    'stored init segment: structure of the fixture, every other byte arbitrary (at most 500 symbolic bytes)',
    'models.Key.get_kids returns one key row per key id of the representation (stand-in)',
    'PlayReady.generate_pro (WRMHEADER rendering through Jinja + UTF-16) is replaced by an opaque symbolic blob of %d bytes' % PRO_LEN,
    'is_https_request() is False; flask.request.args carries no la_url overrides',
] + mk.STUBS
OUTSIDE = ['WRMHEADER / PRO content (C11 scope, not claimed)', 'multi-period init route wiring (database lookups)',
           'licence URL values']

CLEAR = ['bbb_v7', 'bbb_a1', 'bbb_t1']
ENC = ['bbb_v7_enc', 'bbb_a1_enc']
Q_DRMS = ['none', 'all', 'playready', 'clearkey', 'marlin', 'playready-moov', 'playready-cenc', 'playready-pro-cenc',
          'clearkey-moov', 'clearkey-cenc', 'all-moov', 'all-cenc', 'playready,clearkey', 'marlin,clearkey-moov',
          'playready-cenc,clearkey-moov', 'playready-cenc,clearkey', 'clearkey-cenc,playready',
          'marlin-cenc,playready,clearkey', 'clearkey,playready-cenc']
VERSIONS = [None, '1.0', '2.0', '3.0', '4.0']


def _all_drms():
    locs = ['', '-moov', '-cenc', '-pro', '-cenc-moov', '-moov-pro', '-cenc-pro', '-cenc-moov-pro']
    out = ['none', 'all'] + ['all' + l for l in locs[1:]]
    for p in [None] + locs:
        for c in [None] + locs:
            for m in [None, '']:
                parts = []
                if p is not None:
                    parts.append('playready' + p)
                if c is not None:
                    parts.append('clearkey' + c)
                if m is not None:
                    parts.append('marlin' + m)
                if parts:
                    out.append(','.join(parts))
    return sorted(set(out))


def bounds(tier):
    return {'clear_media': CLEAR, 'encrypted_media': ENC,
            'drm_selections': Q_DRMS if tier == 'quick' else 'all %d combinations of systems x location sets' % len(_all_drms()),
            'playready_versions': VERSIONS, 'modes': ['live', 'vod']}


def OBLIGATIONS(tier):
    return ['C10.nest', 'C10.same', 'C10.pssh', 'C10.mehd', 'C10.exc']


def _stored_init(media):
    j = common.layouts()[media]
    seg = j['segments'][0]
    import os
    with open(os.path.join(common.FIX, mk.MEDIA[media][0]), 'rb') as f:
        f.seek(seg['pos'])
        return f.read(seg['size'])


class _InitMedia(mk.MediaFileStandIn):
    def __init__(self, name, data):
        super().__init__(name)
        self.init_bytes = data

    def open_file(self, start=None, buffer_size=4096):
        import contextlib
        from . import c03_rewrite
        seg = self.representation.segments[0]

        @contextlib.contextmanager
        def cm():
            yield c03_rewrite.SegmentWindow(seg.pos, self.init_bytes)
        return cm()


def _install_stubs(pro_blob):
    """documented stand-ins for database / template layers (symbolic process)"""
    import dashlive.server.requesthandler.media_requests as mr
    import dashlive.server.requesthandler.drm_context as dc
    from dashlive.drm.playready import PlayReady
    from dashlive.drm.keymaterial import KeyMaterial
    mr.add_allowed_origins = lambda headers, **kw: None
    dc.is_https_request = lambda: False

    def get_kids(kids):
        rv = {}
        for kid in kids:
            h = kid.hex if hasattr(kid, 'hex') and not isinstance(kid, str) else str(kid).lower()
            rv[h] = types.SimpleNamespace(KID=KeyMaterial(hex=h), KEY=KeyMaterial(hex=KEY_HEX), ALG='AESCTR',
                                          computed=False, hkid=h)
        return rv
    mr.models = types.SimpleNamespace(Key=types.SimpleNamespace(get_kids=get_kids),
                                      MediaFile=getattr(mr.models, 'MediaFile', None),
                                      Period=getattr(mr.models, 'Period', None),
                                      Stream=getattr(mr.models, 'Stream', None))
    mr.current_stream = types.SimpleNamespace(playready_la_url=None, marlin_la_url=None, directory='bbb', title='t')
    PlayReady.generate_pro = lambda self, la_url, default_kid, keys, cattr: pro_blob
    return mr


def _run(media, mode, drm, version, stored, pro_blob):
    from pysx import env
    mr = _install_stubs(pro_blob)
    env.flask_env.reset()
    args = {}
    if drm != 'none':
        args['drm'] = drm
    if version is not None:
        args['playready__version'] = version
    opts = mk.real_options(mode, args)
    mf = _InitMedia(media, stored)
    return mr.LiveMedia().generate_init_segment(mf, mode, opts), opts


def _selection_from_text(drm):
    """the harness's own reading of the documented drm=<...> grammar (not the repository's parser):
    'all[-loc..]' or a comma separated list of <system>[-loc..]; no locations = every location"""
    drm = drm.lower()
    every = {'cenc', 'moov', 'pro'}
    if drm in ('', 'none'):
        return {}
    if drm.startswith('all'):
        locs = set(drm.split('-')[1:]) or every
        return {n: set(locs) for n in ('playready', 'marlin', 'clearkey')}
    out = {}
    for item in drm.split(','):
        parts = item.split('-')
        out[parts[0]] = set(parts[1:]) or set(every)
    return out


def _expected_pssh(drm, encrypted):
    """(system id hex, version, has_data) per appended pssh, from the request's drm text"""
    if not encrypted:
        return []
    want = []
    sel = _selection_from_text(drm)
    for name in sorted(sel):          # DrmContext iterates systems sorted by name
        if 'moov' not in sel[name]:
            continue
        if name == 'clearkey':
            want.append(('1077efecc0b24d02ace33c1e52e2fb4b', 1, False))
        elif name == 'playready':
            want.append(('9a04f07998404286ab92e65be0885f95', 0, True))
    return want


def _check(sx, stored, out, media, mode, opts, pro_blob, encrypted, drm):
    from pysx.core import sx_and
    try:
        root = mk.Root(out)
        sroot = mk.Root(stored)
    except ValueError as e:
        if sx is not None:
            sx.fail('C10.nest', detail={'walker': str(e)})
        return
    if sx is not None:
        sx.prove(True, 'C10.nest')
    top, stop = root.children, sroot.children
    conds = [[c.type for c in top] == [c.type for c in stop]]
    moov = smoov = None
    for c, s in zip(top, stop):
        if c.type == 'moov':
            moov, smoov = c, s
            continue
        conds.append(c.size == s.size and mkx.bytes_equal(out[c.start:c.end], stored[s.start:s.end]))
    if moov is None:
        if sx is not None:
            sx.fail('C10.same', detail={'what': 'no moov in the response'})
        return
    kids_out = list(moov.children)
    kids_in = list(smoov.children)
    n_stored_pssh = sum(1 for c in kids_in if c.type == 'pssh')
    want = _expected_pssh(drm, encrypted)
    appended = kids_out[len(kids_in):]
    body = kids_out[:len(kids_in)]
    # every stored child of moov survives in order, byte-identical, except mvex in live mode (mehd removed)
    same = [len(kids_out) >= len(kids_in)]
    mehd_ok = True
    for c, s in zip(body, kids_in):
        if c.type != s.type:
            same.append(False)
            continue
        if c.type == 'mvex':
            sub_out = [(x.type, out[x.start:x.end]) for x in c.children]
            sub_in = [(x.type, stored[x.start:x.end]) for x in s.children]
            had = any(t == 'mehd' for t, _ in sub_in)
            if mode == 'live':
                expect = [(t, b) for t, b in sub_in if t != 'mehd']
            else:
                expect = sub_in
            mehd_ok = ([t for t, _ in sub_out] == [t for t, _ in expect])
            if mehd_ok:
                for (t1, b1), (t2, b2) in zip(sub_out, expect):
                    same.append(len(b1) == len(b2) and mkx.bytes_equal(b1, b2))
            continue
        same.append(c.size == s.size and mkx.bytes_equal(out[c.start:c.end], stored[s.start:s.end]))
    if sx is not None:
        sx.prove(sx_and(*conds, *same), 'C10.same',
                 detail={'moov_children_out': [c.type for c in kids_out], 'moov_children_in': [c.type for c in kids_in]})
        sx.prove(mehd_ok, 'C10.mehd', detail={'mode': mode})
    # appended pssh boxes: exactly the expected ones, in order, with SystemID / key id / payload
    ok = [len(appended) == len(want), all(c.type == 'pssh' for c in appended)]
    if ok[0] and ok[1]:
        rep_kid = bytes.fromhex(common.layouts()[media]['default_kid']) if encrypted else b''
        for box, (sysid, ver, has_data) in zip(appended, want):
            p = box.start + 8
            ok.append(mk._u(out, p, 1) == ver)
            ok.append(out[p + 4:p + 20] == bytes.fromhex(sysid))
            q = p + 20
            if ver == 1:
                ok.append(mk._u(out, q, 4) == 1)
                ok.append(mkx.bytes_equal(out[q + 4:q + 20], rep_kid))
                q += 20
            if has_data:
                ok.append(mk._u(out, q, 4) == len(pro_blob))
                ok.append(len(out[q + 4:box.end]) == len(pro_blob) and mkx.bytes_equal(out[q + 4:box.end], pro_blob))
            else:
                ok.append(mk._u(out, q, 4) == 0)
                ok.append(q + 4 == box.end)
    if sx is not None:
        sx.prove(sx_and(*ok), 'C10.pssh', detail={'appended': [c.type for c in appended], 'expected': [w[0] for w in want]})


def h_init(sx, media, mode, drm, version):
    from pysx import bytes_
    encrypted = media in ENC
    stored = _stored_init(media)
    pro_pinned = bytes(range(PRO_LEN))

    def ops(data):
        resp, opts = _run(media, mode, drm, version, data, pro_pinned)
        out = resp[0]
        _check(None, data, out, media, mode, opts, pro_pinned, encrypted, drm)
        from dashlive.mpeg import mp4
        from pysx import iomodel
        t = mp4.Mp4Atom.load(iomodel.SxBufferedReader(iomodel.SxBytesIO(data)),
                             options=mp4.Options(mode='r', lazy_load=False, iv_size=8), use_wrapper=True)
        return mkx.atom_fields(t)
    structural = mkx.discover_structural(('c10', media, mode, drm, version), stored, ops)
    buf, symidx = mkx.symbolise(sx, stored, structural, max_symbolic=500)
    pro_blob = bytes_.fresh_bytes('pro', PRO_LEN)
    try:
        resp, opts = _run(media, mode, drm, version, buf, pro_blob)
    except Exception as e:
        sx.fail('C10.exc', detail={'raised': type(e).__name__, 'msg': str(e)[:160]})
        return
    if not (isinstance(resp, tuple) and len(resp) == 3 and resp[1] == 200):
        sx.fail('C10.exc', detail={'response': str(resp)[:100]})
        return
    sx.prove(True, 'C10.exc')
    _check(sx, buf, resp[0], media, mode, opts, pro_blob, encrypted, drm)
    sx.note('expect', {'out_len': len(resp[0])})


def instances(tier):
    out = []
    drms = Q_DRMS if tier == 'quick' else _all_drms()
    for media in ENC:
        for mode in ('live', 'vod'):
            for drm in (drms if (tier == 'quick' or media == 'bbb_a1_enc') else Q_DRMS):
                vers = VERSIONS if ('playready' in drm or drm.startswith('all')) and (tier == 'thorough' or drm in ('playready', 'all')) else [None]
                for v in vers:
                    if tier == 'quick' and mode == 'vod' and drm not in ('all', 'none', 'playready-cenc'):
                        continue
                    out.append({'name': f'init[{media},{mode},{drm},v={v}]', 'fn': h_init,
                                'params': {'media': media, 'mode': mode, 'drm': drm, 'version': v},
                                'opts': {'max_paths': 500, 'max_decisions': 20000}})
    for media in CLEAR:
        for mode in ('live', 'vod'):
            for drm in ('none', 'all'):
                out.append({'name': f'init[{media},{mode},{drm},v=None]', 'fn': h_init,
                            'params': {'media': media, 'mode': mode, 'drm': drm, 'version': None},
                            'opts': {'max_paths': 500, 'max_decisions': 20000}})
    return out


# ---------------------------------------------------------------------------
# concrete side

class _Probe:
    def __init__(self):
        self.bad = []

    def prove(self, cond, label, detail=None):
        if not cond:
            self.bad.append((label, detail))

    def fail(self, label, detail=None):
        self.bad.append((label, detail))


def _real_run(params, inputs):
    import flask
    import dashlive.server.requesthandler.media_requests as mr
    import dashlive.server.requesthandler.drm_context as dc
    from dashlive.drm.playready import PlayReady
    from dashlive.drm.keymaterial import KeyMaterial
    media, mode, drm, version = params['media'], params['mode'], params['drm'], params['version']
    stored = bytearray(_stored_init(media))
    for k, v in inputs.items():
        if k.startswith('b['):
            stored[int(k[2:-1])] = v
    stored = bytes(stored)
    pro = bytes(inputs.get(f'pro[{i}]', 0) for i in range(PRO_LEN))
    app = flask.Flask('c10')
    app.secret_key = 'x'
    app.add_url_rule('/clearkey', 'clearkey', lambda: '')
    saved = (mr.models, mr.current_stream, mr.add_allowed_origins, dc.is_https_request, PlayReady.generate_pro)

    def get_kids(kids):
        rv = {}
        for kid in kids:
            h = kid.hex if not isinstance(kid, str) else kid.lower()
            rv[h] = types.SimpleNamespace(KID=KeyMaterial(hex=h), KEY=KeyMaterial(hex=KEY_HEX), ALG='AESCTR',
                                          computed=False, hkid=h)
        return rv
    try:
        mr.models = types.SimpleNamespace(Key=types.SimpleNamespace(get_kids=get_kids))
        mr.current_stream = types.SimpleNamespace(playready_la_url=None, marlin_la_url=None, directory='bbb', title='t')
        mr.add_allowed_origins = lambda h, **kw: None
        dc.is_https_request = lambda: False
        PlayReady.generate_pro = lambda self, la_url, default_kid, keys, cattr: pro
        with app.test_request_context('/'):
            args = {}
            if drm != 'none':
                args['drm'] = drm
            if version is not None:
                args['playready__version'] = version
            opts = mk.real_options(mode, args)
            mf = _InitMedia(media, stored)
            resp = mr.LiveMedia().generate_init_segment(mf, mode, opts)
            body, status = resp.get_data(), resp.status_code
    finally:
        mr.models, mr.current_stream, mr.add_allowed_origins, dc.is_https_request, PlayReady.generate_pro = saved
    return stored, body, status, opts, pro


def observe(instance, params, inputs):
    try:
        stored, body, status, opts, pro = _real_run(params, inputs)
    except Exception as e:
        return {'raised': type(e).__name__}
    return {'out_len': len(body)}


def replay(case):
    params, inputs, label = case['params'], case['inputs'], case['label']
    try:
        stored, body, status, opts, pro = _real_run(params, inputs)
    except Exception as e:
        import traceback
        return {'violated': label == 'C10.exc', 'observed': {'raised': type(e).__name__, 'msg': str(e)[:200],
                                                             'tb': traceback.format_exc()[-400:]}}
    if status != 200:
        return {'violated': label == 'C10.exc', 'observed': {'status': status}}
    probe = _Probe()
    _check(probe, stored, body, params['media'], params['mode'], opts, pro, params['media'] in ENC, params['drm'])
    bad = [b for b in probe.bad if b[0] == label]
    return {'violated': bool(bad), 'observed': {'violated_obligations': [[b[0], str(b[1])[:300]] for b in probe.bad]}}
