"""C11 - DRM key and licence data (partial claim: byte-level kernels).

Encoded: PlayReady.hex_to_le_guid (raw and text modes), generate_content_key, generate_checksum,
ClearkeyHandler.base64url_encode / base64url_decode, KeyMaterial hex / base64 forms.
SHA-256 and AES are uninterpreted functions of their input byte terms (pysx.cryptomodel).
"""
from __future__ import annotations

PROPERTY = 'C11'

# RFC 4122: bytes_le = time_low, time_mid, time_hi_and_version little endian, rest unchanged
LE = [3, 2, 1, 0, 5, 4, 7, 6, 8, 9, 10, 11, 12, 13, 14, 15]

ASSUMPTIONS = [
    'SHA-256 and AES-128-ECB are uninterpreted functions of their input byte sequence (same input, same output)',
    'key ids, keys and seeds are arbitrary byte strings of the stated lengths (seed 30..34 bytes, and < 30 for the refusal)',
]
OUTSIDE = ['WRMHEADER / PlayReady Object generation and parsing (Jinja, UTF-16, XML)', 'ContentProtection element rendering',
           'the licence endpoint database lookup', 'correctness of the SHA-256 / AES primitives']


def bounds(tier):
    return {'seed_lengths': list(range(26, 35)) if tier == 'thorough' else [29, 30, 31, 32, 34],
            'base64url_lengths': list(range(0, 19)) if tier == 'thorough' else [0, 1, 2, 3, 15, 16, 17, 18]}


def OBLIGATIONS(tier):
    return ['C11.guid', 'C11.seed', 'C11.chk', 'C11.b64', 'C11.km', 'C11.exc']


def h_guid_raw(sx):
    from pysx import bytes_
    from pysx.core import sx_and
    from dashlive.drm.playready import PlayReady
    b = bytes_.fresh_bytes('kid', 16)
    out = PlayReady.hex_to_le_guid(b, raw=True)
    items, src = list(out) if not hasattr(out, 'items') else out.items(), b.items()
    sx.prove(sx_and(len(items) == 16, *[items[i] == src[LE[i]] for i in range(16)]), 'C11.guid',
             detail={'in': b, 'out': out})
    sx.note('expect', {'out': out})


def h_guid_text(sx, dashes):
    """text mode: the result is the dashed little-endian form, and applying it twice is the identity"""
    from pysx import bytes_, chars
    from pysx.core import sx_and
    from dashlive.drm.playready import PlayReady
    b = bytes_.fresh_bytes('kid', 16)
    hx = chars.hex_of(b)
    if dashes:
        c = hx.cps
        hx = chars.mk(c[0:8] + [45] + c[8:12] + [45] + c[12:16] + [45] + c[16:20] + [45] + c[20:32])
    out = PlayReady.hex_to_le_guid(hx, raw=False)
    want = chars.hex_of(bytes_.SymBytes(items=[b.items()[LE[i]] for i in range(16)])).cps
    want = want[0:8] + [45] + want[8:12] + [45] + want[12:16] + [45] + want[16:20] + [45] + want[20:32]
    sx.prove(sx_and(len(out) == 36, out == chars.mk(want)), 'C11.guid', detail={'out': out})
    back = PlayReady.hex_to_le_guid(out, raw=False)
    c = chars.hex_of(b).cps
    dashed = chars.mk(c[0:8] + [45] + c[8:12] + [45] + c[12:16] + [45] + c[16:20] + [45] + c[20:32])
    sx.prove(back == dashed, 'C11.guid', detail={'back': back})


def h_seed(sx, seed_len):
    from pysx import bytes_, cryptomodel
    from pysx.core import sx_and
    from dashlive.drm.playready import PlayReady
    kid = bytes_.fresh_bytes('kid', 16)
    seed = bytes_.fresh_bytes('seed', seed_len)
    try:
        key = PlayReady.generate_content_key(kid, seed)
    except ValueError:
        sx.prove(seed_len < 30, 'C11.seed', detail={'seed_len': seed_len, 'raised': 'ValueError'})
        return
    except Exception as e:
        sx.fail('C11.exc', detail={'raised': type(e).__name__, 'msg': str(e)[:120]})
        return
    sx.prove(True, 'C11.exc')
    if seed_len < 30:
        sx.fail('C11.seed', detail={'seed_len': seed_len, 'what': 'a seed shorter than 30 bytes was accepted'})
        return
    # Microsoft key seed algorithm, written out independently
    kid_le = bytes_.SymBytes(items=[kid.items()[LE[i]] for i in range(16)])
    s30 = seed[:30]

    def sha(*parts):
        h = cryptomodel._Sha256()
        for p in parts:
            h.update(p)
        return h.digest().items()
    A = sha(s30, kid_le)
    B = sha(s30, kid_le, s30)
    C = sha(s30, kid_le, s30, kid_le)
    kitems = list(key) if not hasattr(key, 'items_') else key.items_
    conds = [len(kitems) == 16]
    for i in range(16):
        want = A[i] ^ A[i + 16] ^ B[i] ^ B[i + 16] ^ C[i] ^ C[i + 16]
        conds.append(kitems[i] == want)
    sx.prove(sx_and(*conds), 'C11.seed', detail={'seed_len': seed_len, 'key': key})


def h_checksum(sx):
    import types
    from pysx import bytes_, cryptomodel
    from pysx.core import sx_and
    from dashlive.drm.playready import PlayReady
    from dashlive.drm.keymaterial import KeyMaterial
    kid = bytes_.fresh_bytes('kid', 16)
    key = bytes_.fresh_bytes('key', 16)
    pair = types.SimpleNamespace(KID=KeyMaterial(raw=kid), KEY=KeyMaterial(raw=key))
    out = PlayReady().generate_checksum(pair)
    kid_le = bytes_.SymBytes(items=[kid.items()[LE[i]] for i in range(16)])
    want = cryptomodel._AesEcb(key).encrypt(kid_le)[:8]
    sx.prove(sx_and(len(out) == 8, out == want), 'C11.chk', detail={'out': out})


def h_b64(sx, n):
    from pysx import bytes_
    from pysx.core import sx_and, sx_or
    from dashlive.server.requesthandler.clearkey import ClearkeyHandler
    h = ClearkeyHandler()
    b = bytes_.fresh_bytes('b', n) if n else b''
    try:
        t = h.base64url_encode(b)
        back = h.base64url_decode(t)
    except Exception as e:
        sx.fail('C11.exc', detail={'raised': type(e).__name__, 'msg': str(e)[:120], 'n': n})
        return
    sx.prove(True, 'C11.exc')
    cps = t.cps if hasattr(t, 'cps') else [ord(c) for c in t]
    clean = sx_and(*[sx_and(c != 43, c != 47, c != 61) for c in cps]) if cps else True
    sx.prove(sx_and(clean, len(cps) == (4 * n + 2) // 3, len(back) == n and (back == b if n else True)),
             'C11.b64', detail={'text': t, 'back': back})
    sx.note('expect', {'text': t})


def h_km(sx):
    from pysx import bytes_
    from pysx.core import sx_and
    from dashlive.drm.keymaterial import KeyMaterial
    b = bytes_.fresh_bytes('b', 16)
    km = KeyMaterial(raw=b)
    hx = km.hex
    back = KeyMaterial(hex=hx).raw
    back2 = KeyMaterial(b64=km.b64).raw
    back3 = KeyMaterial(value=b).raw
    sx.prove(sx_and(len(hx) == 32, back == b), 'C11.km', detail={'hex': hx, 'what': 'hex form'})
    sx.prove(back2 == b, 'C11.km', detail={'b64': km.b64, 'what': 'base64 form'})
    sx.prove(back3 == b, 'C11.km', detail={'what': 'raw value'})
    sx.note('expect', {'hex': hx})


def instances(tier):
    B = bounds(tier)
    out = [{'name': 'guid[raw]', 'fn': h_guid_raw, 'params': {}},
           {'name': 'guid[text]', 'fn': h_guid_text, 'params': {'dashes': False}},
           {'name': 'guid[text-dashes]', 'fn': h_guid_text, 'params': {'dashes': True}},
           {'name': 'checksum', 'fn': h_checksum, 'params': {}},
           {'name': 'keymaterial', 'fn': h_km, 'params': {}, 'opts': {'query_timeout_ms': 120000}}]
    for n in B['seed_lengths']:
        out.append({'name': f'seed[{n}]', 'fn': h_seed, 'params': {'seed_len': n}, 'opts': {'query_timeout_ms': 60000}})
    for n in B['base64url_lengths']:
        out.append({'name': f'b64[{n}]', 'fn': h_b64, 'params': {'n': n}, 'opts': {'query_timeout_ms': 120000}})
    return out


# ---------------------------------------------------------------------------
# concrete side

def _bytes(inputs, name, n):
    return bytes(inputs.get(f'{name}[{i}]', 0) for i in range(n))


def observe(instance, params, inputs):
    from dashlive.drm.playready import PlayReady
    if instance == 'guid[raw]':
        return {'out': PlayReady.hex_to_le_guid(_bytes(inputs, 'kid', 16), raw=True).hex()}
    if instance.startswith('b64['):
        from dashlive.server.requesthandler.clearkey import ClearkeyHandler
        return {'text': ClearkeyHandler().base64url_encode(_bytes(inputs, 'b', params['n']))}
    if instance == 'keymaterial':
        from dashlive.drm.keymaterial import KeyMaterial
        return {'hex': KeyMaterial(raw=_bytes(inputs, 'b', 16)).hex}
    return None


def replay(case):
    import base64
    import hashlib
    import types
    import uuid
    params, inputs, label, inst = case['params'], case['inputs'], case['label'], case['instance']
    from dashlive.drm.playready import PlayReady
    try:
        if inst.startswith('guid['):
            kid = _bytes(inputs, 'kid', 16)
            le = uuid.UUID(bytes=kid).bytes_le
            if inst == 'guid[raw]':
                out = PlayReady.hex_to_le_guid(kid, raw=True)
                return {'violated': out != le, 'observed': {'kid': kid.hex(), 'out': out.hex(), 'bytes_le': le.hex()}}
            hx = kid.hex()
            if params['dashes']:
                hx = str(uuid.UUID(bytes=kid))
            out = PlayReady.hex_to_le_guid(hx, raw=False)
            back = PlayReady.hex_to_le_guid(out, raw=False)
            ok = out == str(uuid.UUID(bytes=le)) and back == str(uuid.UUID(bytes=kid))
            return {'violated': not ok, 'observed': {'in': hx, 'out': out, 'back': back}}
        if inst.startswith('seed['):
            kid = _bytes(inputs, 'kid', 16)
            seed = _bytes(inputs, 'seed', params['seed_len'])
            try:
                key = bytes(PlayReady.generate_content_key(kid, seed))
            except ValueError:
                return {'violated': params['seed_len'] >= 30, 'observed': {'raised': 'ValueError'}}
            if params['seed_len'] < 30:
                return {'violated': True, 'observed': {'accepted_short_seed': True}}
            le = uuid.UUID(bytes=kid).bytes_le
            s = seed[:30]
            A = hashlib.sha256(s + le).digest()
            Bd = hashlib.sha256(s + le + s).digest()
            C = hashlib.sha256(s + le + s + le).digest()
            want = bytes(A[i] ^ A[i + 16] ^ Bd[i] ^ Bd[i + 16] ^ C[i] ^ C[i + 16] for i in range(16))
            return {'violated': key != want, 'observed': {'key': key.hex(), 'want': want.hex(), 'seed_len': len(seed)}}
        if inst == 'checksum':
            from Crypto.Cipher import AES
            from dashlive.drm.keymaterial import KeyMaterial
            kid, key = _bytes(inputs, 'kid', 16), _bytes(inputs, 'key', 16)
            out = PlayReady().generate_checksum(types.SimpleNamespace(KID=KeyMaterial(raw=kid), KEY=KeyMaterial(raw=key)))
            want = AES.new(key, AES.MODE_ECB).encrypt(uuid.UUID(bytes=kid).bytes_le)[:8]
            return {'violated': out != want, 'observed': {'out': out.hex(), 'want': want.hex()}}
        if inst.startswith('b64['):
            from dashlive.server.requesthandler.clearkey import ClearkeyHandler
            b = _bytes(inputs, 'b', params['n'])
            h = ClearkeyHandler()
            t = h.base64url_encode(b)
            back = h.base64url_decode(t)
            ok = back == b and t == base64.urlsafe_b64encode(b).decode().rstrip('=')
            return {'violated': not ok, 'observed': {'b': b.hex(), 'text': t, 'back': back.hex()}}
        from dashlive.drm.keymaterial import KeyMaterial
        b = _bytes(inputs, 'b', 16)
        km = KeyMaterial(raw=b)
        ok = KeyMaterial(hex=km.hex).raw == b and KeyMaterial(b64=km.b64).raw == b and km.hex == b.hex()
        return {'violated': not ok, 'observed': {'hex': km.hex, 'b64': km.b64}}
    except Exception as e:
        import traceback
        return {'violated': True, 'observed': {'raised': type(e).__name__, 'msg': str(e)[:200],
                                               'tb': traceback.format_exc()[-400:]}}
