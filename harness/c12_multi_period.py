"""C12 - multi-period presentations tile the timeline and play the right media (kernel level).

Encoded: ManifestContext.create_all_vod_periods / create_all_live_periods on a stand-in ``self``
whose create_period returns a dash Period carrying the database period's id and duration;
ServeMpsMedia.calculate_media_segment_index with flask.g.period supplied;
Representation.get_segment_index.
"""
from __future__ import annotations

import types

from . import common
from . import timing_kernel as tk

PROPERTY = 'C12'
US = 1_000_000

ASSUMPTIONS = [
    'a Period row is a stand-in with pid, start (source offset), duration and stream.timing_reference; create_period (database and URL plumbing) returns Period(id, duration)',
    'segment mapping: the source offset is any microsecond inside the first loop of the source; "nearest start" is accepted with one tick of slack (the offset is converted through two float floors)',
    'live tiling: concrete period tables, clock = base + symbolic window, symbolic depth; vod tiling: up to 3 periods with symbolic durations',
]
OUTSIDE = ['track subsets and per-period AdaptationSet selection (database content)', 'period offsets beyond the first loop of the source']

MAP_PAIRS_Q = [('bbb_v7', 'bbb_v7'), ('bbb_a1', 'bbb_v7'), ('bbb_t1', 'bbb_v7')]
MAP_PAIRS_T = MAP_PAIRS_Q + [('bbb_a2', 'bbb_v7'), ('tears_a1', 'tears_v1'), ('syn_irregular', 'syn_irregular')]
TABLES = {
    'one': [(0, 20)],
    'two': [(0, 12), (8, 16)],
    'three-offbeat': [(1.5, 10.25), (0, 7), (13.75, 9.5)],
}


def bounds(tier):
    return {'map_pairs': MAP_PAIRS_Q if tier == 'quick' else MAP_PAIRS_T, 'period_start_us': [0, 'one loop'],
            'vod_periods': [1, 3], 'period_duration_us': [1_000_000, 3_600_000_000], 'live_tables': sorted(TABLES),
            'live_bases': ['65s', '1h'] if tier == 'quick' else ['65s', '10min', '1h', '1d-20s']}


def OBLIGATIONS(tier):
    return ['C12.map', 'C12.time', 'C12.end', 'C12.vod.tile', 'C12.live.tile', 'C12.exc']


def _slack(rep, ref_ts):
    """the source offset reaches the representation through the reference timescale (two floors):
    one reference tick expressed in representation ticks, plus one"""
    return -(-rep.timescale // ref_ts) + 1


def _admissible(rep, tc, slack):
    """[(k, stored start, SymBool 'segment k is the nearest start to tc within the slack')]"""
    from pysx.core import sx_and
    out = []
    N = rep.num_media_segments
    for k in range(1, N + 1):
        s = rep.segments[k]
        lo = (rep.segments[k - 1].start + rep.segments[k - 1].duration // 2) if k > 1 else -10 ** 12
        hi = s.start + s.duration // 2
        cond = sx_and(tc >= lo - slack, tc <= hi + slack)
        if k == 1:
            # past the mid-point of the last stored segment the nearest start is the first segment
            # of the next loop of the source
            last = rep.segments[N]
            from pysx.core import sx_or
            cond = sx_or(cond, tc >= last.start + last.duration // 2 - slack)
        out.append((k, s.start, cond))
    return out


def _first_segment_ok(rep, tc, f, seg_start, slack):
    from pysx.core import sx_and, sx_or
    return sx_or(*[sx_and(f == k, seg_start == st, cond) for k, st, cond in _admissible(rep, tc, slack)])


def h_map(sx, rep_name, ref_name):
    from pysx import env, dt
    from pysx.core import sx_and, sx_divmod
    from dashlive.mpeg.dash.timing import DashTiming
    from dashlive.server.requesthandler.media_requests import ServeMpsMedia
    rep = common.make_rep(rep_name)
    ref = common.make_ref(ref_name)
    timing = DashTiming(tk.ast_real(), ref, common.live_opts(mode='vod'))
    rep.set_dash_timing(timing)
    loop_us = ref.media_duration * US // ref.timescale
    start_us = sx.int('period_start_us', 0, loop_us - 1)
    period = types.SimpleNamespace(start=dt.mk_td(start_us), stream=types.SimpleNamespace(timing_reference=ref))
    env.flask_env.reset()
    env.flask_env.g.period = period
    N, sn = rep.num_media_segments, rep.start_number
    n = sx.int('n', sn, sn + N + 2)
    # exact offset in representation ticks (floor)
    tc = sx_divmod(start_us * rep.timescale, US)[0]
    try:
        mod, origin, num = ServeMpsMedia.calculate_media_segment_index(None, 'vod', rep, timing, n, None)
        refused = False
    except ValueError:
        refused = True
    except Exception as e:
        sx.fail('C12.exc', detail={'raised': type(e).__name__, 'msg': str(e)[:120]})
        return
    sx.prove(True, 'C12.exc')
    det = {'period_start_us': start_us, 'n': n, 'offset_ticks': tc}
    slack = _slack(rep, ref.timescale)
    if refused:
        # a number may only be refused when it lies past the last stored segment for some
        # admissible first segment
        from pysx.core import sx_or
        sx.prove(sx_or(*[sx_and(cond, k + (n - sn) > N) for k, st, cond in _admissible(rep, tc, slack)]),
                 'C12.end', detail=det)
        return
    f = mod - (n - sn)
    seg_start = -origin
    sx.prove(sx_and(f >= 1, f <= N, mod <= N, _first_segment_ok(rep, tc, f, seg_start, slack)), 'C12.map',
             detail=dict(det, mod_segment=mod, first=f, origin=origin))
    # decode times count from zero at the Period start: origin = -(start of the first segment)
    sx.prove(sx_and(num == n, origin <= 0), 'C12.time', detail=dict(det, origin=origin))
    sx.note('expect', {'mod': mod, 'origin': origin})


class _SelfStandIn:
    def __init__(self, now, options):
        self.now = now
        self.options = options
        self.periods = []

    def create_period(self, stream, timing, db_period):
        from dashlive.mpeg.dash.period import Period
        import datetime
        return Period(start=datetime.timedelta(0), id=db_period.pid, duration=db_period.duration)


def _mps(durations_us, ref_name):
    from pysx import dt
    ref = common.make_ref(ref_name)
    periods = []
    for i, d in enumerate(durations_us):
        periods.append(types.SimpleNamespace(pid=f'p{i}', duration=dt.mk_td(d), start=dt.mk_td(0),
                                             stream=types.SimpleNamespace(timing_reference=ref)))

    def total_duration():
        import datetime
        t = datetime.timedelta(0)
        for p in periods:
            t = t + p.duration
        return t
    return types.SimpleNamespace(name='mps', periods=periods, total_duration=total_duration)


def h_vod_tile(sx, k):
    from pysx import dt
    from pysx.core import sx_and
    from dashlive.server.requesthandler.manifest_context import ManifestContext
    durs = [sx.int(f'dur{i}_us', US, 3600 * US) for i in range(k)]
    mps = _mps(durs, 'bbb_v7')
    me = _SelfStandIn(tk.ast_real(), common.live_opts(mode='vod'))
    try:
        ManifestContext.create_all_vod_periods(me, mps)
    except Exception as e:
        sx.fail('C12.exc', detail={'raised': type(e).__name__, 'msg': str(e)[:120]})
        return
    sx.prove(True, 'C12.exc')
    conds = [len(me.periods) == k]
    t = 0
    ids = []
    for p, d in zip(me.periods, durs):
        conds += [dt.td_us(p.start) == t, dt.td_us(p.duration) == d]
        t = t + d
        ids.append(p.id)
    conds.append(len(set(ids)) == len(ids))
    sx.prove(sx_and(*conds), 'C12.vod.tile', detail={'starts': [p.start for p in me.periods], 'durations': durs})


def h_live_tile(sx, table, base, timeline):
    from pysx import dt
    from pysx.core import sx_and
    from dashlive.server.requesthandler.manifest_context import ManifestContext
    rows = TABLES[table]
    durs = [int(d * US) for _, d in rows]
    total = sum(durs)
    eps = sx.int('eps_us', 0, 2 * total - 1)
    depth = sx.int('depth', 1, 60)
    elapsed = tk.BASES[base] * US + eps
    now = tk.now_from_elapsed_us(elapsed)
    mps = _mps(durs, 'bbb_v7')
    opts = common.live_opts(availabilityStartTime=tk.ast_real(), timeShiftBufferDepth=depth, segmentTimeline=timeline)
    me = _SelfStandIn(now, opts)
    try:
        ManifestContext.create_all_live_periods(me, mps)
    except Exception as e:
        sx.fail('C12.exc', detail={'raised': type(e).__name__, 'msg': str(e)[:120]})
        return
    sx.prove(True, 'C12.exc')
    ps = me.periods
    if not ps:
        sx.fail('C12.live.tile', detail={'what': 'no periods listed'})
        return
    first_avail = elapsed - depth * US
    conds = []
    ids = [p.id for p in ps]
    conds.append(len(set(ids)) == len(ids))
    # contiguous
    for a, b, da in zip(ps, ps[1:], [x for x in ps]):
        conds.append(dt.td_us(b.start) == dt.td_us(a.start) + dt.td_us(_dur_of(a, mps)))
    # the first listed period starts no later than the oldest available media, the last one reaches now
    conds.append(dt.td_us(ps[0].start) <= first_avail)
    last_end = dt.td_us(ps[-1].start) + dt.td_us(_dur_of(ps[-1], mps))
    conds.append(last_end > elapsed)
    if timeline:
        conds.append(ps[-1].duration is None)
    sx.prove(sx_and(*conds), 'C12.live.tile',
             detail={'ids': ids, 'starts': [p.start for p in ps], 'elapsed_us': elapsed, 'depth': depth})
    sx.note('expect', {'ids': ids})


def _dur_of(period, mps):
    """database duration of a listed period (the last one may have its duration cleared)"""
    pid = period.id.split('_')[0]
    for p in mps.periods:
        if p.pid == pid:
            return p.duration
    raise KeyError(period.id)


def instances(tier):
    B = bounds(tier)
    out = []
    for rep_name, ref_name in B['map_pairs']:
        out.append({'name': f'map[{rep_name}/{ref_name}]', 'fn': h_map, 'params': {'rep_name': rep_name, 'ref_name': ref_name},
                    'opts': {'max_paths': 20000, 'max_decisions': 2000}})
    for k in (1, 2, 3):
        out.append({'name': f'vod-tile[k={k}]', 'fn': h_vod_tile, 'params': {'k': k}})
    for table in TABLES:
        for base in B['live_bases']:
            for timeline in (False, True):
                out.append({'name': f'live-tile[{table},{base},timeline={timeline}]', 'fn': h_live_tile,
                            'params': {'table': table, 'base': base, 'timeline': timeline},
                            'opts': {'max_paths': 20000, 'max_decisions': 2000}})
    return out


# ---------------------------------------------------------------------------
# concrete side

def _real_map(params, inputs):
    import datetime
    import flask
    from dashlive.mpeg.dash.timing import DashTiming
    from dashlive.server.requesthandler.media_requests import ServeMpsMedia
    rep = common.make_rep(params['rep_name'])
    ref = common.make_ref(params['ref_name'])
    timing = DashTiming(tk.ast_real(), ref, common.live_opts(mode='vod'))
    rep.set_dash_timing(timing)
    period = types.SimpleNamespace(start=datetime.timedelta(microseconds=inputs['period_start_us']),
                                   stream=types.SimpleNamespace(timing_reference=ref))
    app = flask.Flask('c12')
    with app.app_context():
        flask.g.period = period
        try:
            mod, origin, num = ServeMpsMedia.calculate_media_segment_index(None, 'vod', rep, timing, inputs['n'], None)
            return rep, {'mod': mod, 'origin': origin, 'num': num}
        except ValueError as e:
            return rep, {'refused': str(e)[:100]}


def observe(instance, params, inputs):
    if instance.startswith('map['):
        rep, r = _real_map(params, inputs)
        if 'refused' in r:
            return None
        return {'mod': r['mod'], 'origin': r['origin']}
    return None


def replay(case):
    from fractions import Fraction
    params, inputs, label, inst = case['params'], case['inputs'], case['label'], case['instance']
    try:
        if inst.startswith('map['):
            rep, r = _real_map(params, inputs)
            N, sn = rep.num_media_segments, rep.start_number
            tc = inputs['period_start_us'] * rep.timescale // US
            slack = _slack(rep, common.ref_tuple(params['ref_name'])['timescale'])
            adm = [k for k, st, cond in _admissible(rep, tc, slack) if cond]
            n = inputs['n']
            if 'refused' in r:
                bad = all(f + (n - sn) <= N for f in adm)     # refused although every admissible mapping is in range
                return {'violated': bad and label == 'C12.end', 'observed': {'offset_ticks': tc, 'admissible_first': adm, 'n': n, 'result': r}}
            f = r['mod'] - (n - sn)
            ok = f in adm and r['mod'] <= N and -r['origin'] == rep.segments[f].start and r['num'] == n
            return {'violated': not ok, 'observed': {'offset_ticks': tc, 'admissible_first': adm, 'n': n, 'result': r, 'first': f}}
        import datetime
        from dashlive.server.requesthandler.manifest_context import ManifestContext
        td = lambda us: datetime.timedelta(microseconds=us)
        if inst.startswith('vod-tile['):
            k = params['k']
            durs = [inputs[f'dur{i}_us'] for i in range(k)]
            mps = _mps(durs, 'bbb_v7')
            me = _SelfStandIn(tk.ast_real(), common.live_opts(mode='vod'))
            ManifestContext.create_all_vod_periods(me, mps)
            t = datetime.timedelta(0)
            ok = len(me.periods) == k
            for p, d in zip(me.periods, durs):
                ok = ok and p.start == t and p.duration == td(d)
                t += td(d)
            return {'violated': not ok, 'observed': {'starts': [str(p.start) for p in me.periods]}}
        rows = TABLES[params['table']]
        durs = [int(d * US) for _, d in rows]
        elapsed = tk.BASES[params['base']] * US + inputs['eps_us']
        now = tk.now_from_elapsed_us(elapsed)
        mps = _mps(durs, 'bbb_v7')
        opts = common.live_opts(availabilityStartTime=tk.ast_real(), timeShiftBufferDepth=inputs['depth'],
                                segmentTimeline=params['timeline'])
        me = _SelfStandIn(now, opts)
        ManifestContext.create_all_live_periods(me, mps)
        ps = me.periods
        ok = bool(ps)
        if ok:
            ids = [p.id for p in ps]
            ok = len(set(ids)) == len(ids)
            for a, b in zip(ps, ps[1:]):
                ok = ok and b.start == a.start + _dur_of(a, mps)
            ok = ok and ps[0].start <= td(elapsed - inputs['depth'] * US)
            ok = ok and ps[-1].start + _dur_of(ps[-1], mps) > td(elapsed)
            if params['timeline']:
                ok = ok and ps[-1].duration is None
        return {'violated': not ok, 'observed': {'ids': [p.id for p in ps], 'starts': [str(p.start) for p in ps],
                                                 'elapsed_s': str(Fraction(elapsed, US)), 'depth': inputs['depth']}}
    except Exception as e:
        import traceback
        return {'violated': label == 'C12.exc', 'observed': {'raised': type(e).__name__, 'msg': str(e)[:200],
                                                             'tb': traceback.format_exc()[-400:]}}
