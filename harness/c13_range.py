"""C13 - byte-range requests return exactly the requested bytes.

Encoded (real code, executed on proxies): RequestHandlerBase.get_http_range,
OnDemandMedia.get (read of the range from a stand-in file), and the slice step of
generate_media_segment (``data[start:end + 1]``, restated on the (start, end) pair).
Oracle: RFC 7233 2.1 / 4.2 / 4.4 written out over integers, independent of the code.
"""
from __future__ import annotations

PROPERTY = 'C13'
LMAX = 2 ** 40

ASSUMPTIONS = [
    'flask.request.headers is a plain dict with the lower-case key "range" (werkzeug header lookup is case-insensitive)',
    'content length 0 <= L <= 2**40; range positions are arbitrary non-negative integers (unbounded)',
    'suffix ranges are checked for L >= 1 (RFC 7233 leaves bytes=-n on an empty representation without a Content-Range form)',
]
OUTSIDE = [
    'werkzeug header parsing and the HTTP status line',
    'multi-range (comma) headers beyond "refused with ValueError"',
]

SHAPES = {
    'a-b': 'bytes={a}-{b}',
    'a-': 'bytes={a}-',
    '-s': 'bytes=-{s}',
    'a-b.ws': '  Bytes={a}-{b} ',
    'a-.upper': 'BYTES={a}-',
    '-s.ws': ' bytes=-{s}  ',
}


def bounds(tier):
    return {'L': [0, LMAX], 'positions': 'non-negative, unbounded', 'shapes': sorted(SHAPES),
            'malformed_len': 5 if tier == 'quick' else 8}


def OBLIGATIONS(tier):
    return ['C13.sat', 'C13.unsat', 'C13.suffix', 'C13.absent', 'C13.exc', 'C13.ondemand', 'C13.seg']


def _expected(shape, a, b, s, L):
    """RFC 7233 oracle -> list of (condition, ('206', first, last) | ('416',) | ('invalid',))."""
    from pysx.core import sx_and, sx_not
    kind = shape.split('.')[0]
    if kind == 'a-b':
        return [
            (a > b, ('invalid',)),
            (sx_and(a <= b, a >= L), ('416',)),
            (sx_and(a <= b, a < L, b < L), ('206', a, b)),
            (sx_and(a <= b, a < L, b >= L), ('206', a, L - 1)),
        ]
    if kind == 'a-':
        return [
            (a >= L, ('416',)),
            (a < L, ('206', a, L - 1)),
        ]
    return [
        (s == 0, ('416',)),
        (sx_and(s > 0, s >= L), ('206', 0, L - 1)),
        (sx_and(s > 0, s < L), ('206', L - s, L - 1)),
    ]


def _parse_content_range(text_value):
    """'bytes f-l/L' or 'bytes */L' with tokens -> tuple of terms."""
    from pysx import text
    pieces = text.split_tokens(text_value) if text.has_token(text_value) else [text_value]
    flat = []
    for p in pieces:
        if isinstance(p, str):
            flat.append(p)
        else:
            flat.append(p.x)
    # re-assemble: strings are literal, ints are numbers; parse with a tiny state machine
    import re
    s = ''
    nums = []
    for p in flat:
        if isinstance(p, str):
            # concrete digits inside literal text become numbers too
            for m in re.finditer(r'\d+|[^\d]+', p):
                g = m.group(0)
                if g.isdigit():
                    s += '#'
                    nums.append(int(g))
                else:
                    s += g
        else:
            s += '#'
            nums.append(p)
    return s, nums


def h_range(sx, shape):
    from pysx import env
    from dashlive.server.requesthandler.base import RequestHandlerBase
    L = sx.int('L', 0, LMAX)
    kind = shape.split('.')[0]
    a = b = s = None
    if 'a' in kind:
        a = sx.int('a', 0, None)
    if 'b' in kind:
        b = sx.int('b', 0, None)
    if 's' in kind:
        s = sx.int('s', 0, None)
        sx.assume(L >= 1, 'suffix shapes: L >= 1')
    header = SHAPES[shape].format(a=a, b=b, s=s)
    env.flask_env.reset()
    env.flask_env.request.headers = {'range': header}
    handler = RequestHandlerBase()
    sx.note('header', header)
    try:
        start, end, status, headers = handler.get_http_range(L)
    except ValueError:
        # only acceptable for the invalid region (last < first)
        for cond, exp in _expected(shape, a, b, s, L):
            if exp[0] == 'invalid':
                sx.prove(cond, 'C13.sat', detail={'raised': 'ValueError'})
                return
        sx.fail('C13.sat', detail={'raised': 'ValueError'})
        return
    except Exception as e:  # any other exception type is uncontrolled
        sx.fail('C13.exc', detail={'raised': type(e).__name__})
        return
    sx.prove(True, 'C13.exc')
    sx.note('expect', {'start': start, 'end': end, 'status': status,
                       'content_range': headers.get('Content-Range')})
    from pysx.core import sx_and, sx_or, sx_implies
    if start is None or end is None or 'Content-Range' not in headers:
        # a present, well-formed Range header answered as if it were absent
        det = {'start': start, 'end': end, 'status': status, 'cr': headers.get('Content-Range')}
        for cond, exp in _expected(shape, a, b, s, L):
            label = {'206': 'C13.suffix' if kind == '-s' else 'C13.sat', '416': 'C13.unsat'}.get(exp[0], 'C13.sat')
            sx.prove(sx_implies(cond, False), label, detail=det)
        return
    cr_shape, cr_nums = _parse_content_range(headers['Content-Range'])
    for cond, exp in _expected(shape, a, b, s, L):
        if exp[0] == '206':
            label = 'C13.suffix' if (kind == '-s') else 'C13.sat'
            _, f, l = exp
            ok = sx_and(status == 206, start == f, end == l)
            if cr_shape == 'bytes #-#/#':
                ok = sx_and(ok, cr_nums[0] == f, cr_nums[1] == l, cr_nums[2] == L)
            else:
                ok = sx_and(ok, False)
            # the in-memory slice data[start:end+1] equals body[f:l+1] iff indices agree and are in range
            ok = sx_and(ok, 0 <= start, end < L)
            sx.prove(sx_implies(cond, ok), label,
                     detail={'start': start, 'end': end, 'status': status, 'cr': headers['Content-Range']})
        elif exp[0] == '416':
            ok = status == 416
            if cr_shape == 'bytes */#':
                ok = sx_and(ok, cr_nums[0] == L)
            else:
                ok = sx_and(ok, sx_implies(status == 416, False))
            sx.prove(sx_implies(cond, ok), 'C13.unsat',
                     detail={'start': start, 'end': end, 'status': status, 'cr': headers['Content-Range']})
        else:
            # invalid spec that was not refused: it must not be served as 206 with disagreeing data
            ok = sx_or(status == 416,
                       sx_and(status == 206, 0 <= start, start <= end, end < L,
                              cr_shape == 'bytes #-#/#' and sx_and(cr_nums[0] == start, cr_nums[1] == end,
                                                                   cr_nums[2] == L)))
            sx.prove(sx_implies(cond, ok), 'C13.sat',
                     detail={'start': start, 'end': end, 'status': status, 'cr': headers['Content-Range']})


def h_absent(sx):
    from pysx import env
    from dashlive.server.requesthandler.base import RequestHandlerBase
    L = sx.int('L', 0, LMAX)
    env.flask_env.reset()
    env.flask_env.request.headers = {}
    r = RequestHandlerBase().get_http_range(L)
    sx.prove(r[0] is None and r[1] is None and r[2] == 200 and r[3] == {}, 'C13.absent')
    sx.note('expect', {'start': r[0], 'end': r[1], 'status': r[2], 'content_range': None})


class _FileStandIn:
    """media file of symbolic length L; read(n) at offset p returns the index pair it covers."""

    def __init__(self, L):
        self.L = L
        self.opened_at = None
        self.read_n = None

    class _Blob:
        pass

    def open_file(self, start=0, buffer_size=4096):
        outer = self

        class _Reader:
            def __enter__(self_):
                outer.opened_at = start
                return self_

            def __exit__(self_, *a):
                return False

            def read(self_, n=-1):
                outer.read_n = n
                return ('slice', start, n)
        return _Reader()


def h_ondemand(sx, shape):
    """OnDemandMedia.get: the body is file[start : start + (1 + end - start)] clipped at L."""
    from pysx import env
    from pysx.core import sx_and, sx_implies, sx_min
    import dashlive.server.requesthandler.media_requests as mr
    L = sx.int('L', 1, LMAX)
    kind = shape.split('.')[0]
    a = b = s = None
    if 'a' in kind:
        a = sx.int('a', 0, None)
    if 'b' in kind:
        b = sx.int('b', 0, None)
    if 's' in kind:
        s = sx.int('s', 0, None)
    header = SHAPES[shape].format(a=a, b=b, s=s)
    env.flask_env.reset()
    env.flask_env.request.headers = {'range': header}
    mf = _FileStandIn(L)
    mf.blob = _FileStandIn._Blob()
    mf.blob.size = L
    saved = mr.current_media_file
    mr.current_media_file = mf
    try:
        resp = mr.OnDemandMedia().get('stream', 'file', 'm4v')
    finally:
        mr.current_media_file = saved
    if isinstance(resp, tuple) and len(resp) == 2 and resp[1] == 400:
        for cond, exp in _expected(shape, a, b, s, L):
            if exp[0] == 'invalid':
                sx.prove(cond, 'C13.ondemand', detail={'status': 400})
                return
        sx.fail('C13.ondemand', detail={'status': 400})
        return
    data, status, headers = resp
    for cond, exp in _expected(shape, a, b, s, L):
        if exp[0] == '206':
            _, f, l = exp
            if status != 206:
                sx.prove(sx_implies(cond, False), 'C13.ondemand', detail={'status': status})
                continue
            # a read of n bytes at offset p from a file of length L returns file[p : min(p+n, L)]
            p, n = mf.opened_at, mf.read_n
            ok = sx_and(p == f, 0 <= p, n >= 0, sx_min(p + n, L) == l + 1)
            sx.prove(sx_implies(cond, ok), 'C13.ondemand', detail={'p': p, 'n': n, 'status': status})
        elif exp[0] == '416':
            if status == 206:
                sx.prove(sx_implies(cond, False), 'C13.ondemand', detail={'status': status})
            else:
                sx.prove(sx_implies(cond, sx_and(status == 416, data == b'')), 'C13.ondemand',
                         detail={'status': status})


SEG_CASES = {
    # case -> (media, extra query args; {n} = the requested segment number)
    'video': ('bbb_v7', {}),
    'video+vcorrupt': ('bbb_v7', {'vcorrupt': '{n}'}),
    'audio': ('bbb_a1', {}),
    'video+events': ('bbb_v7', {'events': 'ping', 'ping__inband': '1', 'ping__interval': '200'}),
}


def _seg_setup(case):
    from . import c03_rewrite as c03
    media, args = SEG_CASES[case]
    now, n = c03._instant(media, '1h')
    args = {k: v.format(n=n) for k, v in args.items()}
    k = c03._mod_segment_for(media, media, now, n, args)
    stored = c03._stored_segment(media, k)
    return c03, media, args, now, n, k, stored


def h_segment(sx, case, shape):
    """the real generate_media_segment, once without and once with a Range header: the ranged
    answer is the slice [first, last] of the full body and Content-Range names the full length"""
    from pysx.core import sx_and, sx_implies, ctx
    from . import media_kernel as mk
    c03, media, args, now, n, k, stored = _seg_setup(case)
    kind = shape.split('.')[0]
    a = sx.int('a', 0, None) if 'a' in kind else None
    b = sx.int('b', 0, None) if 'b' in kind else None
    s = sx.int('s', 0, None) if 's' in kind else None
    header = SHAPES[shape].format(a=a, b=b, s=s)
    mf = c03.OneSegmentMedia(media, k, stored)
    try:
        full = mk.run_segment_symbolic(media, media, now, c03._options(args, now, media), n, None, media=mf)
        ctx().env['body_slices'] = True
        part = mk.run_segment_symbolic(media, media, now, c03._options(args, now, media), n, None, media=mf,
                                       headers={'range': header})
    except Exception as e:
        sx.fail('C13.exc', detail={'raised': type(e).__name__, 'msg': str(e)[:160]})
        return
    finally:
        ctx().env['body_slices'] = False
    sx.prove(True, 'C13.exc')
    body = full[0]
    L = len(body)
    sx.note('L', L)
    if not isinstance(part, tuple):
        # 400 'Invalid HTTP RANGE'
        for cond, exp in _expected(shape, a, b, s, L):
            sx.prove(sx_implies(cond, exp[0] == 'invalid'), 'C13.seg', detail={'response': str(part)[:60]})
        return
    data, status, headers = part
    from pysx.iomodel import BodySlice, BodyBytes
    cr = headers.get('Content-Range')
    cr_shape, cr_nums = _parse_content_range(cr) if cr is not None else (None, [])
    det = {'status': status, 'content_range': cr, 'L': L, 'body': data if isinstance(data, BodySlice) else f'{len(data)} bytes'}
    for cond, exp in _expected(shape, a, b, s, L):
        if exp[0] == '206':
            _, f, l = exp
            ok = status == 206 and isinstance(data, BodySlice) and cr_shape == 'bytes #-#/#'
            if ok:
                same_base = len(data.base) == L and bool(data.base == (body.value if isinstance(body, BodyBytes) else body))
                ok = sx_and(same_base, data.start == f, data.stop == l + 1,
                            cr_nums[0] == f, cr_nums[1] == l, cr_nums[2] == L)
            sx.prove(sx_implies(cond, ok), 'C13.seg', detail=det)
        elif exp[0] == '416':
            ok = status == 416 and cr_shape == 'bytes */#'
            if ok:
                ok = cr_nums[0] == L
            sx.prove(sx_implies(cond, ok), 'C13.seg', detail=det)
        else:
            sx.prove(sx_implies(cond, status in (400, 416)), 'C13.seg', detail=det)


def instances(tier):
    out = []
    for case in SEG_CASES:
        for shape in ('a-b', 'a-', '-s'):
            if tier == 'quick' and case in ('audio', 'video+events') and shape != 'a-b':
                continue
            out.append({'name': f'segment[{case},{shape}]', 'fn': h_segment, 'params': {'case': case, 'shape': shape},
                        'weight': 30})
    for shape in SHAPES:
        out.append({'name': f'range[{shape}]', 'fn': h_range, 'params': {'shape': shape}})
    out.append({'name': 'absent', 'fn': h_absent, 'params': {}})
    for shape in ('a-b', 'a-', '-s'):
        out.append({'name': f'ondemand[{shape}]', 'fn': h_ondemand, 'params': {'shape': shape}})
    return out


# ---------------------------------------------------------------------------
# concrete side (clean interpreter, real code)

def _real_call(header, L):
    import types
    import flask
    from dashlive.server.requesthandler import base
    app = flask.Flask('c13')
    hdrs = {} if header is None else {'Range': header}
    with app.test_request_context('/', headers=hdrs):
        try:
            start, end, status, headers = base.RequestHandlerBase().get_http_range(L)
        except ValueError as e:
            return {'raised': 'ValueError'}
        except Exception as e:
            return {'raised': type(e).__name__}
    return {'start': start, 'end': end, 'status': status, 'content_range': headers.get('Content-Range')}


def _rfc(shape, a, b, s, L):
    kind = shape.split('.')[0]
    if kind == 'a-b':
        if a > b:
            return ('invalid',)
        if a >= L:
            return ('416',)
        return ('206', a, min(b, L - 1))
    if kind == 'a-':
        return ('416',) if a >= L else ('206', a, L - 1)
    if s == 0:
        return ('416',)
    if s >= L:
        return ('206', 0, L - 1)
    return ('206', L - s, L - 1)


def _header(shape, inputs):
    return SHAPES[shape].format(a=inputs.get('a'), b=inputs.get('b'), s=inputs.get('s'))


def _real_segment(params, inputs):
    """clean interpreter: the real handler with and without the Range header"""
    from . import media_kernel as mk
    c03, media, args, now, n, k, stored = _seg_setup(params['case'])
    header = _header(params['shape'], inputs)
    mf = c03._RealOneSegment(media, k, bytes(stored))
    full, st0, h0 = mk.run_segment_real(media, media, now, c03._options(args, now, media), n, None, media=mf)
    mf = c03._RealOneSegment(media, k, bytes(stored))
    body, st, h = mk.run_segment_real(media, media, now, c03._options(args, now, media), n, None, media=mf,
                                      headers={'Range': header})
    return {'header': header, 'L': len(full), 'status': st, 'content_range': h.get('Content-Range'), 'body': body, 'full': full}


def _segment_verdict(params, inputs):
    r = _real_segment(params, inputs)
    L = r['L']
    exp = _rfc(params['shape'], inputs.get('a'), inputs.get('b'), inputs.get('s'), L)
    if exp[0] == '206':
        f, l = exp[1], exp[2]
        violated = not (r['status'] == 206 and r['body'] == r['full'][f:l + 1]
                        and r['content_range'] == f'bytes {f}-{l}/{L}')
    elif exp[0] == '416':
        violated = not (r['status'] == 416 and r['content_range'] == f'bytes */{L}')
    else:
        violated = r['status'] not in (400, 416)
    obs = {'header': r['header'], 'L': L, 'status': r['status'], 'content_range': r['content_range'],
           'body_len': len(r['body']), 'rfc7233': list(exp)}
    return violated, obs


def observe(instance, params, inputs):
    if instance.startswith('segment['):
        return None
    if instance == 'absent':
        return _real_call(None, inputs['L'])
    r = _real_call(_header(params['shape'], inputs), inputs['L'])
    return r


def replay(case):
    inputs, params = case['inputs'], case['params']
    if case['instance'].startswith('segment['):
        try:
            violated, obs = _segment_verdict(params, inputs)
        except Exception as e:
            import traceback
            return {'violated': True, 'observed': {'raised': type(e).__name__, 'tb': traceback.format_exc()[-400:]}}
        return {'violated': violated, 'observed': obs}
    L = inputs['L']
    if case['instance'] == 'absent':
        r = _real_call(None, L)
        return {'violated': r != {'start': None, 'end': None, 'status': 200, 'content_range': None}, 'observed': r}
    shape = params['shape']
    header = _header(shape, inputs)
    r = _real_call(header, L)
    exp = _rfc(shape, inputs.get('a'), inputs.get('b'), inputs.get('s'), L)
    body = None
    if case['instance'].startswith('ondemand'):
        r = _real_ondemand(header, L)
    violated = False
    if 'raised' in r:
        violated = not (r['raised'] == 'ValueError' and exp[0] == 'invalid')
    elif exp[0] == '206':
        want_cr = f'bytes {exp[1]}-{exp[2]}/{L}'
        if case['instance'].startswith('ondemand'):
            violated = not (r['status'] == 206 and r['body_range'] == [exp[1], exp[2] + 1])
        else:
            violated = not (r['status'] == 206 and r['start'] == exp[1] and r['end'] == exp[2]
                            and r['content_range'] == want_cr)
            # slice identity on a body of min(L, 4096) bytes when small enough to build
            if not violated and L <= 1 << 16:
                body = bytes(i & 255 for i in range(L))
                violated = body[r['start']:r['end'] + 1] != body[exp[1]:exp[2] + 1]
    elif exp[0] == '416':
        violated = not (r['status'] == 416 and (r.get('content_range') in (None, f'bytes */{L}')
                                                if case['instance'].startswith('ondemand')
                                                else r['content_range'] == f'bytes */{L}'))
    else:
        violated = not (r['status'] in (416,) or
                        (r['status'] == 206 and 0 <= r['start'] <= r['end'] < L))
    return {'violated': violated, 'observed': {'header': header, 'L': L, 'got': r, 'rfc7233': list(exp)}}


def _real_ondemand(header, L):
    import flask
    from dashlive.server.requesthandler import media_requests as mr
    app = flask.Flask('c13')
    rec = {}

    class MF:
        class blob:
            size = L

        def open_file(self, start=0, buffer_size=4096):
            class R:
                def __enter__(s):
                    rec['p'] = start
                    return s

                def __exit__(s, *a):
                    return False

                def read(s, n=-1):
                    rec['n'] = n
                    return b''
            return R()
    saved = mr.current_media_file
    mr.current_media_file = MF()
    try:
        with app.test_request_context('/', headers={'Range': header}):
            try:
                resp = mr.OnDemandMedia().get('s', 'f', 'm4v')
            except Exception as e:
                return {'raised': type(e).__name__}
    finally:
        mr.current_media_file = saved
    out = {'status': resp.status_code, 'content_range': resp.headers.get('Content-Range')}
    if 'p' in rec:
        p, n = rec['p'], rec['n']
        out['body_range'] = [p, min(p + n, L)] if (p >= 0 and n >= 0) else [p, p + n]
    return out
