"""C14 - timed events are delivered exactly once and decode to their schedule.

Inductive formulation: one arbitrary segment [a, a+dur) (representation ticks) against an
arbitrary schedule (start, count, interval, duration); the ids emitted for it must be exactly
the scheduled ids whose presentation time falls into the segment's interval converted to the
event timescale.  Adjacent gapless segments share the converted boundary, so every run of
consecutive segments delivers each event exactly once (C02.gapless supplies the premise).
"""
from __future__ import annotations

import types

PROPERTY = 'C14'

INTERVALS = [1, 7, 100, 1000]
INTERVALS_T = [1, 2, 3, 7, 10, 48, 100, 999, 1000, 1001, 90000]     # thorough tier
TIMESCALES_T = [(1, 240), (100, 240), (1000, 90000), (90000, 44100), (100, 30000), (48000, 48000), (10000000, 90000), (90000, 1)]
TIMESCALES = [(100, 240), (1000, 90000), (90000, 44100), (100, 30000)]     # (event, representation)
MAX_EVENTS = 6

ASSUMPTIONS = [
    'segment start a: any tick 0 .. 2**40; duration 1 .. 2**24 ticks; at most %d events fall into one segment (unwinding assertion)' % MAX_EVENTS,
    'schedule: start 0 .. 2**40, count 0 .. 2**20 (0 = unbounded), interval from ' + repr(INTERVALS) + ', event/representation timescales from ' + repr(TIMESCALES),
    'moof / representation are stand-ins exposing traf.tfdt.base_media_decode_time and segments[mod].duration',
    'CRC-32/MPEG-2 is an uninterpreted function of the byte sequence with the zero-residue axiom crc(m || be32(crc(m))) = 0 (checked against crccheck at start-up)',
]
OUTSIDE = ['the CRC-32/MPEG-2 polynomial itself', 'the XML scte35:Binary wrapper template',
           'intervals/timescales outside the catalogue']


def bounds(tier):
    return {'intervals': INTERVALS_T if tier == 'thorough' else INTERVALS,
            'timescales(event,rep)': TIMESCALES_T if tier == 'thorough' else TIMESCALES[:3],
            'max_events_per_segment': MAX_EVENTS, 'versions': [0, 1]}


def OBLIGATIONS(tier):
    return ['C14.once', 'C14.time', 'C14.oob', 'C14.exc'] + c14_scte_obligations()


def _schedule(sx, interval, te, version, cls_name='ping', count_max=2 ** 20):
    from dashlive.server.events.ping_pong import PingPongEvents
    from dashlive.server.events.scte35_events import Scte35Events
    start = sx.int('start', 0, 2 ** 40)
    count = sx.int('count', 0, count_max)
    duration = sx.int('ev_duration', 0, 2 ** 31 - 1)
    cls = PingPongEvents if cls_name == 'ping' else Scte35Events
    ev = cls(start=start, count=count, interval=interval, duration=duration, timescale=te,
             version=version, inband=True, value='0')
    return ev, start, count, duration


def h_once(sx, interval, te, tr, version, cls_name):
    from pysx.core import sx_and, sx_or, sx_divmod, sx_max, sx_min, sx_ite, BoundExceeded
    ev, start, count, evdur = _schedule(sx, interval, te, version, cls_name)
    a = sx.int('seg_start', 0, 2 ** 40)
    dur = sx.int('seg_duration', 1, 2 ** 24)
    moof = types.SimpleNamespace(traf=types.SimpleNamespace(tfdt=types.SimpleNamespace(base_media_decode_time=a)))
    rep = types.SimpleNamespace(timescale=tr, segments=[None, types.SimpleNamespace(duration=dur)])
    # converted segment interval (oracle side, own arithmetic)
    a2 = sx_divmod(a * te, tr)[0]
    b2 = sx_divmod((a + dur) * te, tr)[0]
    # unwinding bound: at most MAX_EVENTS schedule points inside [a2, b2)
    sx.assume(b2 - a2 <= MAX_EVENTS * interval, f'at most {MAX_EVENTS} events per segment')
    try:
        boxes = ev.create_emsg_boxes(segment_num=1, mod_segment=1, moof=moof, representation=rep,
                                     adaptation_set=None)
    except (AssertionError, Exception) as e:
        sx.fail('C14.exc', detail={'raised': type(e).__name__, 'msg': str(e)[:100]})
        return
    sx.prove(True, 'C14.exc')
    if len(boxes) > MAX_EVENTS + 1:
        raise BoundExceeded('more events than the unwinding bound')
    # scheduled ids inside the segment: kmin = max(0, ceil((a2 - start)/I)), kmax = ceil((b2 - start)/I) - 1
    kmin = sx_max(0, -sx_divmod(start - a2, interval)[0])
    kmax = -sx_divmod(start - b2, interval)[0] - 1
    kmax = sx_ite(count > 0, sx_min(kmax, count - 1), kmax)
    m = len(boxes)
    ids = [b.event_id for b in boxes]
    det = {'a2': a2, 'b2': b2, 'start': start, 'count': count, 'interval': interval, 'ids': ids,
           'kmin': kmin, 'kmax': kmax}
    if m == 0:
        sx.prove(kmax < kmin, 'C14.once', detail=det)
    else:
        conds = [kmax - kmin + 1 == m]
        for i, k in enumerate(ids):
            conds.append(k == kmin + i)
        sx.prove(sx_and(*conds), 'C14.once', detail=det)
    tconds = []
    for b in boxes:
        t = start + b.event_id * interval
        if b.version == 1:
            tconds.append(b.presentation_time == t)
        else:
            tconds.append(sx_and(b.presentation_time_delta == t - a2, b.presentation_time_delta >= 0))
        tconds.append(b.timescale == te)
        tconds.append(b.event_duration == evdur)
    sx.prove(sx_and(*tconds), 'C14.time', detail=dict(det, times=[getattr(b, 'presentation_time', None) if b.version == 1
                                                                  else b.presentation_time_delta for b in boxes]))
    sx.note('expect', {'ids': ids})


def h_oob(sx, interval, te):
    from pysx.core import sx_and
    from dashlive.server.events.ping_pong import PingPongEvents
    start = sx.int('start', 0, 2 ** 40)
    count = sx.int('count', 0, 5)
    evdur = sx.int('ev_duration', 0, 2 ** 31 - 1)
    ev = PingPongEvents(start=start, count=count, interval=interval, duration=evdur, timescale=te,
                        version=0, inband=False, value='0')
    stream = ev.create_manifest_context(context={})
    evs = stream.events
    conds = [len(evs) == count]
    for k, e in enumerate(evs):
        conds.append(sx_and(e['id'] == k, e['presentationTime'] == start + k * interval,
                            e['duration'] == evdur,
                            e['data'] == ('ping' if k % 2 == 0 else 'pong')))
    sx.prove(sx_and(*conds), 'C14.oob', detail={'count': count, 'listed': len(evs)})
    # out-of-band schedules put nothing in band
    import types as _t
    moof = _t.SimpleNamespace(traf=_t.SimpleNamespace(tfdt=_t.SimpleNamespace(base_media_decode_time=0)))
    rep = _t.SimpleNamespace(timescale=240, segments=[None, _t.SimpleNamespace(duration=960)])
    sx.prove(ev.create_emsg_boxes(segment_num=1, mod_segment=1, moof=moof, representation=rep) == [],
             'C14.oob')


def instances(tier):
    B = bounds(tier)
    out = []
    for (te, tr) in B['timescales(event,rep)']:
        for interval in B['intervals']:
            for version in (0, 1):
                out.append({'name': f'once[ping,I={interval},te={te},tr={tr},v={version}]', 'fn': h_once,
                            'params': {'interval': interval, 'te': te, 'tr': tr, 'version': version, 'cls_name': 'ping'},
                            'opts': {'max_paths': 20000, 'max_decisions': 400}})
    for interval in (1, 1000):
        out.append({'name': f'oob[I={interval}]', 'fn': h_oob, 'params': {'interval': interval, 'te': 100}})
    from . import c14_scte
    out += c14_scte.instances(tier)
    return out


# ---------------------------------------------------------------------------
# concrete side

def _real_once(params, inputs):
    from dashlive.server.events.ping_pong import PingPongEvents
    interval, te, tr, version = params['interval'], params['te'], params['tr'], params['version']
    ev = PingPongEvents(start=inputs['start'], count=inputs['count'], interval=interval,
                        duration=inputs['ev_duration'], timescale=te, version=version, inband=True, value='0')
    a, dur = inputs['seg_start'], inputs['seg_duration']
    moof = types.SimpleNamespace(traf=types.SimpleNamespace(tfdt=types.SimpleNamespace(base_media_decode_time=a)))
    rep = types.SimpleNamespace(timescale=tr, segments=[None, types.SimpleNamespace(duration=dur)])
    boxes = ev.create_emsg_boxes(segment_num=1, mod_segment=1, moof=moof, representation=rep)
    a2, b2 = a * te // tr, (a + dur) * te // tr
    want = [k for k in range(max(0, -((inputs['start'] - a2) // interval)), -((inputs['start'] - b2) // interval))
            if inputs['count'] == 0 or k < inputs['count']] if b2 - a2 <= 64 * interval else None
    return boxes, a2, b2, want


def observe(instance, params, inputs):
    if not instance.startswith('once['):
        return None
    boxes, a2, b2, want = _real_once(params, inputs)
    return {'ids': [b.event_id for b in boxes]}


def replay(case):
    params, inputs, inst, label = case['params'], case['inputs'], case['instance'], case['label']
    if inst.startswith('scte'):
        from . import c14_scte
        return c14_scte.replay(case)
    try:
        if inst.startswith('once['):
            boxes, a2, b2, want = _real_once(params, inputs)
            ids = [b.event_id for b in boxes]
            bad = []
            if want is not None and ids != want:
                bad.append('C14.once')
            for b in boxes:
                t = inputs['start'] + b.event_id * params['interval']
                if b.version == 1:
                    if b.presentation_time != t:
                        bad.append('C14.time')
                elif b.presentation_time_delta != t - a2 or b.presentation_time_delta < 0:
                    bad.append('C14.time')
            return {'violated': label in bad, 'observed': {'segment_event_ticks': [a2, b2], 'emitted_ids': ids,
                                                           'scheduled_ids': want, 'violated_obligations': bad}}
        from dashlive.server.events.ping_pong import PingPongEvents
        ev = PingPongEvents(start=inputs['start'], count=inputs['count'], interval=params['interval'],
                            duration=inputs['ev_duration'], timescale=params['te'], version=0, inband=False, value='0')
        evs = ev.create_manifest_context(context={}).events
        ok = len(evs) == inputs['count'] and all(
            e['id'] == k and e['presentationTime'] == inputs['start'] + k * params['interval']
            for k, e in enumerate(evs))
        return {'violated': not ok, 'observed': {'listed': len(evs), 'count': inputs['count']}}
    except (AssertionError, Exception) as e:
        return {'violated': label == 'C14.exc', 'observed': {'raised': type(e).__name__, 'msg': str(e)[:200]}}


def c14_scte_obligations():
    from . import c14_scte
    return getattr(c14_scte, 'OBLIGATION_LABELS', [])
