"""SCTE-35 part of C14: the generated splice carries the scheduled values and
parse(encode(sig)) returns them with a valid CRC and correct back-patched lengths."""
from __future__ import annotations

OBLIGATION_LABELS = ['C14.scte.fields', 'C14.scte.rt', 'C14.scte.exc']
MPEG_TIMEBASE = 90000
TES = [100, 1000, 90000]


def _events(sx, te, count_mode):
    from dashlive.server.events.scte35_events import Scte35Events
    duration = sx.int('ev_duration', 0, 2 ** 31 - 1)
    if count_mode == 'unbounded':
        count = 0
    else:
        count = sx.int('count', 1, 2 ** 20)
    ev = Scte35Events(start=0, count=count, interval=1000, duration=duration, timescale=te,
                      inband=True, value='')
    return ev, count, duration


def h_scte(sx, te, count_mode):
    from pysx.core import sx_and, sx_divmod, sx_implies
    from dashlive.scte35.binarysignal import BinarySignal
    from dashlive.utils.buffered_reader import BufferedReader
    import bitstring
    import struct
    ev, count, duration = _events(sx, te, count_mode)
    k = sx.int('event_id', 0, 2 ** 31)
    if count_mode != 'unbounded':
        sx.assume(k < count, 'event ids the schedule can produce: 0 <= id < count')
    t = sx.int('presentation_time', 0, 2 ** 44)
    det = {'event_id': k, 'count': count, 'presentation_time': t, 'duration': duration}
    try:
        splice = ev.create_binary_signal(k, t)
        data = splice.encode()
    except Exception as e:
        sx.fail('C14.scte.exc', detail=dict(det, raised=type(e).__name__, msg=str(e)[:100]))
        return
    sx.prove(True, 'C14.scte.exc')
    si = splice.splice_insert
    want_pts = sx_divmod(sx_divmod(t * MPEG_TIMEBASE, te)[0], 1 << 33)[1]
    want_dur = sx_divmod(duration * MPEG_TIMEBASE, te)[0]
    # the break duration is a 33 bit field: the schedule value is carried while it is representable
    sx.prove(sx_and(si.splice_event_id == k, si.splice_time.pts == want_pts,
                    sx_implies(want_dur < (1 << 33), si.break_duration.duration == want_dur),
                    si.break_duration.auto_return == (sx_divmod(k, 2)[1] == 0)),
             'C14.scte.fields', detail=dict(det, pts=si.splice_time.pts, want_pts=want_pts))
    # round trip
    try:
        src = BufferedReader(None, data=data)
        kw = BinarySignal.parse(src, size=len(data))
    except Exception as e:
        sx.fail('C14.scte.rt', detail=dict(det, raised=type(e).__name__, msg=str(e)[:100]))
        return
    psi = kw['splice_insert']
    desc = kw['descriptors'][0]
    sd = splice.descriptors[0]
    n = len(data)
    ok = sx_and(
        kw['table_id'] == 0xFC, kw['crc_valid'] is True or kw['crc_valid'] == True,   # noqa: E712
        kw['section_length'] == n - 3,
        kw['splice_command_type'] == 5,
        psi['splice_event_id'] == k,
        psi['splice_time']['pts'] == want_pts,
        psi['break_duration']['duration'] == si.break_duration.duration,
        psi['break_duration']['auto_return'] == si.break_duration.auto_return,
        psi['unique_program_id'] == 1620,
        psi['avail_num'] == si.avail_num, psi['avails_expected'] == si.avails_expected,
        psi['out_of_network_indicator'] == True,   # noqa: E712
        len(kw['descriptors']) == 1,
        desc['segmentation_event_id'] == sd.segmentation_event_id,
        desc['segmentation_type'] == sd.segmentation_type,
        desc['tag'] == 2,
    )
    sx.prove(ok, 'C14.scte.rt', detail=dict(det, n=n, crc_valid=kw['crc_valid'],
                                            section_length=kw['section_length'],
                                            splice_command_length=kw.get('splice_command_length')))
    # back-patched lengths equal the byte counts: 3 header bytes + 11 fixed bytes up to and
    # including splice_command_type, the command, the 2-byte loop length, the loop, the CRC
    cmd_len = kw['splice_command_length']
    loop_len = desc['length'] + 2
    sx.prove(sx_and(n == 3 + 11 + cmd_len + 2 + loop_len + 4, kw['section_length'] == n - 3),
             'C14.scte.rt', detail={'n': n, 'cmd_len': cmd_len, 'loop_len': loop_len})
    sx.note('expect', {'data': data})


def instances(tier):
    out = []
    tes = TES if tier == 'thorough' else TES[:2]
    for te in tes:
        for cm in ('unbounded', 'finite'):
            out.append({'name': f'scte[te={te},{cm}]', 'fn': h_scte, 'params': {'te': te, 'count_mode': cm},
                        'opts': {'max_paths': 5000, 'max_decisions': 2000}})
    return out


# ---------------------------------------------------------------------------

def _real(params, inputs):
    from dashlive.server.events.scte35_events import Scte35Events
    from dashlive.scte35.binarysignal import BinarySignal
    from dashlive.utils.buffered_reader import BufferedReader
    count = 0 if params['count_mode'] == 'unbounded' else inputs['count']
    ev = Scte35Events(start=0, count=count, interval=1000, duration=inputs['ev_duration'],
                      timescale=params['te'], inband=True, value='')
    splice = ev.create_binary_signal(inputs['event_id'], inputs['presentation_time'])
    data = splice.encode()
    kw = BinarySignal.parse(BufferedReader(None, data=data), size=len(data))
    return splice, data, kw


def observe(instance, params, inputs):
    try:
        splice, data, kw = _real(params, inputs)
    except Exception as e:
        return {'raised': type(e).__name__}
    return {'data': data.hex()}


def replay(case):
    params, inputs, label = case['params'], case['inputs'], case['label']
    te = params['te']
    try:
        splice, data, kw = _real(params, inputs)
    except Exception as e:
        return {'violated': True, 'observed': {'raised': type(e).__name__, 'msg': str(e)[:200], 'inputs': inputs}}
    k, t = inputs['event_id'], inputs['presentation_time']
    want_pts = (t * MPEG_TIMEBASE // te) % (1 << 33)
    want_dur = inputs['ev_duration'] * MPEG_TIMEBASE // te
    psi = kw['splice_insert']
    ok = (kw['crc_valid'] and kw['section_length'] == len(data) - 3 and psi['splice_event_id'] == k
          and psi['splice_time']['pts'] == want_pts
          and (want_dur >= (1 << 33) or psi['break_duration']['duration'] == want_dur)
          and psi['break_duration']['auto_return'] == (k % 2 == 0))
    return {'violated': not ok, 'observed': {'hex': data.hex(), 'parsed_event_id': psi['splice_event_id'],
                                             'pts': psi['splice_time']['pts'], 'want_pts': want_pts,
                                             'crc_valid': kw['crc_valid']}}
