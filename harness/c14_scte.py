"""SCTE-35 part of C14 (filled in below)."""


def instances(tier):
    return []


def replay(case):
    return {'violated': False, 'observed': None}
