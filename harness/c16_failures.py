"""C16 - no request causes an uncontrolled failure; injected errors fire exactly as asked.

Kernel-level claim.  Each instance drives one piece of request-handling code with values that
*request data can produce* (the images of the options' own from_string parsers, arbitrary short
query text, a session counter in any state a previous request can leave behind) and proves that

  * the option parsers raise nothing but ValueError (the only thing every handler maps to 400);
  * code that runs *after* option parsing, outside the handlers' try blocks, raises nothing at all
    and terminates within the unwinding bound;
  * synthetic errors are produced exactly for the addressed number, 5xx ones failureCount times.

Every scenario is one function executed twice: with a symbolic value provider under the engine
and, for replay / self-check, with a concrete provider against the un-instrumented code under a
real Flask request context.
"""
from __future__ import annotations

import os
import types

PROPERTY = 'C16'

ASSUMPTIONS = [
    'query text: ASCII (0..127) characters; free-form strings of 0..3 (quick) / 0..4 (thorough) characters per option parser (one less for the date-time, float, DRM-selection and error-list parsers, which fork most), plus structured strings assembled from the vocabulary each parser recognises with unknown 2-letter words in between',
    'session counters: absent, None (what reset_error_counter stores) or any integer 0..2**16+2; failureCount 0..2**16 or absent; segment numbers / update counts 0..2**31; status codes from [400, 404, 499, 500, 503, 599] (the code is part of a session key)',
    'event schedules: every value passes through the event option parser (a ValueError there is the 400 answer); interval text from {-7, -1, 0, 1, 7}, event timescale text from {0, 1, 100}, start/count/duration any integer in [-2**40, 2**40] (count <= 6 for out-of-band listings, which materialise every event); one segment [a, a+d), a 0..2**40, d 1..8 ticks of a 100 Hz representation',
    'a kernel that passes the unwinding bound is replayed concretely under a 2 s alarm and reported as "runs without bound" if it does not return',
    'UTF-8 decoding of a symbolic byte >= 0x80 inside the MP4 parser is nondeterministic: either UnicodeDecodeError or one character per byte',
    'io.BufferedReader.read(n) (lazy loading reads box payloads through one) raises MemoryError in CPython when n is beyond anything allocatable; the stream model returns the available bytes instead - that corner was examined by concrete single-byte mutation of the encrypted fixtures (fix aee96b3), not by the solver',
    '"reported parse error" for Mp4Atom.load = an exception of the family (ValueError, struct.error, EOFError, IOError); nothing between the parser and the HTTP response catches anything else',
]
OUTSIDE = [
    'the HTTP surface as such: router, HTML/REST management endpoints, database state, uploads through werkzeug',
    'non-ASCII query text; option strings longer than the stated bounds (date-time option values are covered by C19 on their grammar)',
    'Jinja template rendering with out-of-range option values (C05), including the out-of-band SCTE-35 XML payload',
    'MP4 corruption other than: one 4-byte payload word of a box (value windows [0,24], true value +-8, 2**31 +-8, 2**32-9..2**32-1), the 32-bit size field of one box (any value in [0,24], true size +-8, distance to end of file +-8, >= 2**31-1) and input cut at any of the 13 bytes from a box start; bit flips in box payloads are covered for non-structural bytes by C04.exc',
]

INTERVALS = [-7, -1, 0, 1, 7]
EV_TIMESCALES = [0, 1, 100]
FAMILY = ('ValueError', 'error', 'EOFError', 'OSError')


def bounds(tier):
    return {'free_text_len': [0, 3] if tier == 'quick' else [0, 4], 'intervals': INTERVALS,
            'event_timescales': EV_TIMESCALES, 'session_counter': ['absent', None, [0, 2 ** 16 + 2]], 'status_codes': CODES,
            'inject_sequence_len': 4 if tier == 'quick' else 6,
            'structured_words': 2}


def OBLIGATIONS(tier):
    return ['C16.opt', 'C16.drm', 'C16.time', 'C16.errs', 'C16.inject.step', 'C16.inject.seq',
            'C16.inject.manifest', 'C16.events', 'C16.ntp', 'C16.mp4']


# ---------------------------------------------------------------------------
# value providers

class SymG:
    real = False

    def __init__(self, sx):
        self.sx = sx

    def int(self, name, lo, hi):
        return self.sx.int(name, lo, hi)

    def choice(self, name, n):
        i = self.sx.int(name, 0, n - 1)
        return i if isinstance(i, int) else i.concrete(name)

    def bool(self, name):
        return bool(self.sx.bool(name))

    def chars(self, name, n, lo=0, hi=127):
        from pysx import chars
        if n == 0:
            return ''
        return chars.fresh(name, n, lo, hi)

    def cat(self, parts):
        from pysx import chars
        if any(isinstance(p, chars.SymChars) for p in parts):
            cps = []
            for p in parts:
                cps += chars.as_cps(p)
            return chars.mk(cps)
        return ''.join(parts)


class RealG:
    real = True

    def __init__(self, inputs):
        self.inputs = inputs

    def int(self, name, lo, hi):
        return self.inputs.get(name, lo if lo > -10 ** 30 else 0)

    def choice(self, name, n):
        return self.inputs.get(name, 0)

    def bool(self, name):
        return bool(self.inputs.get(name, False))

    def chars(self, name, n, lo=0, hi=127):
        return ''.join(chr(self.inputs.get(f'{name}[{i}]', lo)) for i in range(n))

    def cat(self, parts):
        return ''.join(parts)


_LAST = {'site': None}


def _outcome(fn):
    """('ok', value) or ('<ExceptionType>', message).  Subclasses of ValueError are reported as
    ValueError (that is what the handlers catch); the innermost dash-live frame is kept in _LAST."""
    import struct
    try:
        return 'ok', fn()
    except Exception as e:       # engine control flow is BaseException and passes through
        site = None
        tb = e.__traceback__
        while tb is not None:
            code = tb.tb_frame.f_code
            if '/dashlive/' in code.co_filename:
                site = os.path.basename(code.co_filename) + ':' + getattr(code, 'co_qualname', code.co_name)
            tb = tb.tb_next
        _LAST['site'] = site
        if isinstance(e, ValueError):
            return 'ValueError', f'{type(e).__name__}: {e}'[:160]
        if isinstance(e, struct.error):
            return 'error', str(e)[:160]
        if isinstance(e, OSError):
            return 'OSError', str(e)[:160]
        return type(e).__name__, str(e)[:160]


def _timed(fn, seconds=2):
    """real side only: run under an alarm so that an unbounded loop becomes an observation"""
    import signal

    class Hang(BaseException):
        pass

    def on_alarm(*a):
        raise Hang()
    old = signal.signal(signal.SIGALRM, on_alarm)
    signal.setitimer(signal.ITIMER_REAL, seconds)
    try:
        return _outcome(fn)
    except Hang:
        return 'RUNS-WITHOUT-BOUND', f'no return within {seconds} s'
    finally:
        signal.setitimer(signal.ITIMER_REAL, 0)
        signal.signal(signal.SIGALRM, old)


def _all_options():
    from dashlive.server.options.repository import OptionsRepository
    return OptionsRepository.get_dash_options()


def _parser_table():
    """one representative option per distinct from_string implementation"""
    out = {}
    for o in _all_options():
        fn = o.from_string
        key = getattr(fn, '__qualname__', repr(fn))
        if key.endswith('<locals>.int_or_default'):
            key = 'EventBase.int_or_default_from_string'
        out.setdefault(key, o.cgi_name)
    return out


def _opt(cgi_name):
    return [o for o in _all_options() if o.cgi_name == cgi_name][0]


# ---------------------------------------------------------------------------
# scenario: option parsers on free text

def scen_opt(G, cgi_name, n):
    s = G.chars('s', n)
    opt = _opt(cgi_name)
    kind, val = _outcome(lambda: opt.from_string(s))
    return {'text': s, 'outcome': kind, 'msg': val if kind != 'ok' else None}


def h_opt(sx, cgi_name, n):
    r = scen_opt(SymG(sx), cgi_name, n)
    sx.prove(r['outcome'] in ('ok', 'ValueError'), 'C16.opt',
             detail={'option': cgi_name, 'text': r['text'], 'raised': r['outcome'], 'msg': r['msg']})
    sx.note('expect', {'outcome': r['outcome']})


# ---------------------------------------------------------------------------
# scenario: structured option text and the code that consumes the parsed value

DRM_WORDS = ['all', 'none', 'playready', 'marlin', 'clearkey', 'moov', 'cenc', 'pro', '', '?']
TIME_WORDS = ['direct', 'head', 'http-ntp', 'iso', 'ntp', 'sntp', 'xsd', 'none', '', '?']
ERR_CODES = ['404', '503', '', '?', '5 03', '-1']
ERR_POS = ['5', '00:00:20Z', '2024-01-01T00:00:20Z', '', '?', 'P1D', '2024-01-01', '-3', '12:61:00Z', '2024-13-01T00:00:00Z']


def _word(G, name, vocab):
    i = G.choice(name, len(vocab))
    w = vocab[i]
    if w == '?':
        return G.chars('u' + name, 2, 97, 122)
    return w


def scen_drm(G, words):
    parts = [_word(G, 'w0', DRM_WORDS)]
    for i in range(1, words):
        sep = [',', '-'][G.choice(f'sep{i}', 2)]
        parts += [sep, _word(G, f'w{i}', DRM_WORDS)]
    s = G.cat(parts)
    from dashlive.server.options.drm_options import _drm_selection_from_string
    from dashlive.server.requesthandler.drm_context import DrmContext
    kind, val = _outcome(lambda: _drm_selection_from_string(s))
    r = {'text': s, 'parse': kind, 'use': None, 'msg': val if kind != 'ok' else None}
    if kind == 'ok':
        opts = types.SimpleNamespace(drmSelection=val)
        k2, v2 = _outcome(lambda: DrmContext.generate_drm_location_tuples(opts))
        r['use'] = k2
        if k2 != 'ok':
            r['msg'] = v2
    return r


def h_drm(sx, words):
    r = scen_drm(SymG(sx), words)
    det = {'text': r['text'], 'parse': r['parse'], 'use': r['use'], 'msg': r['msg']}
    sx.prove(r['parse'] in ('ok', 'ValueError') and r['use'] in (None, 'ok'), 'C16.drm', detail=det)
    sx.note('expect', {'parse': r['parse'], 'use': r['use']})


def scen_time(G):
    s = _word(G, 'w0', TIME_WORDS)
    import datetime
    from dashlive.server.options.utc_time_options import UTCMethod
    from dashlive.server.requesthandler.time_source_context import TimeSourceContext
    from dashlive.utils.timezone import UTC
    kind, val = _outcome(lambda: UTCMethod.from_string(s))
    r = {'text': s, 'parse': kind, 'use': None, 'msg': val if kind != 'ok' else None}
    if kind == 'ok' and val is not None:
        opts = types.SimpleNamespace(utcMethod=val, ntpSources=[])
        cgi = types.SimpleNamespace(time={})
        now = datetime.datetime(2024, 1, 1, 1, 0, 0, tzinfo=UTC())

        def use():
            with _flask_ctx(G):
                return TimeSourceContext(opts, cgi, now)
        k2, v2 = _outcome(use)
        r['use'] = k2
        if k2 != 'ok':
            r['msg'] = v2
    return r


def h_time(sx):
    r = scen_time(SymG(sx))
    sx.prove(r['parse'] in ('ok', 'ValueError') and r['use'] in (None, 'ok'), 'C16.time',
             detail={'text': r['text'], 'parse': r['parse'], 'use': r['use'], 'msg': r['msg']})
    sx.note('expect', {'parse': r['parse'], 'use': r['use']})


class _flask_ctx:
    """real side: a Flask request context with a session; engine side: the flask stand-in"""

    def __init__(self, G, session=None):
        self.G = G
        self.session = session

    def __enter__(self):
        if self.G.real:
            import flask
            app = flask.Flask('c16', template_folder=os.path.join(os.environ.get('DASHLIVE_REPO', '/repo'), 'templates'))
            app.secret_key = 'c16'
            app.add_url_rule('/time/<method>', 'time', lambda method: '')
            self.cm = app.test_request_context('/')
            self.cm.__enter__()
            if self.session:
                flask.session.update(self.session)
            return flask.session
        from pysx import env
        env.flask_env.reset()
        if self.session:
            env.flask_env.session.update(self.session)
        return env.flask_env.session

    def __exit__(self, *a):
        if self.G.real:
            self.cm.__exit__(None, None, None)
        return False


def _handler():
    from dashlive.server.requesthandler.media_requests import MediaRequestBase
    return object.__new__(MediaRequestBase)


def _status(resp):
    """status code of whatever make_response was given / returned"""
    if resp is None:
        return None
    if isinstance(resp, tuple):
        return resp[1]
    return getattr(resp, 'status_code', resp)


def scen_errs(G, items):
    parts = []
    for i in range(items):
        if i:
            parts.append(',')
        parts += [_word(G, f'c{i}', ERR_CODES), '=', _word(G, f'p{i}', ERR_POS)]
    s = G.cat(parts)
    import datetime
    from dashlive.server.options.http_error import _errors_from_string
    from dashlive.server.requesthandler.manifest_context import ManifestContext
    from dashlive.utils.timezone import UTC
    from . import common
    kind, val = _outcome(lambda: _errors_from_string(s))
    r = {'text': s, 'parse': kind, 'use': None, 'msg': val if kind != 'ok' else None}
    if kind != 'ok':
        return r
    h = _handler()
    opts = types.SimpleNamespace(videoErrors=val, audioErrors=[], textErrors=[], failureCount=None)
    seg = G.int('seg_num', 0, 10)
    ast = datetime.datetime(2024, 1, 1, 0, 0, 0, tzinfo=UTC())
    now = ast + datetime.timedelta(seconds=3600)
    rep = common.make_rep('bbb_v7')

    def use():
        with _flask_ctx(G):
            h.check_for_synthetic_http_error('video', seg, opts)
        ManifestContext.calculate_injected_error_segments(val, now, ast, 60, rep)
        return None
    k2, v2 = _outcome(use)
    r['use'] = k2
    if k2 != 'ok':
        r['msg'] = v2
    return r


def h_errs(sx, items):
    r = scen_errs(SymG(sx), items)
    sx.prove(r['parse'] in ('ok', 'ValueError') and r['use'] in (None, 'ok'), 'C16.errs',
             detail={'text': r['text'], 'parse': r['parse'], 'use': r['use'], 'msg': r['msg']})
    sx.note('expect', {'parse': r['parse'], 'use': r['use']})


# ---------------------------------------------------------------------------
# scenario: synthetic error injection

CODES = [400, 404, 499, 500, 503, 599]


def _code(G, name):
    """HTTP status from a catalogue spanning both sides of the 5xx boundary (the code becomes
    part of a session key, i.e. text, so it is concrete on every path)"""
    return CODES[G.choice(name, len(CODES))]


def _counter_state(G, name):
    """a session counter in any state an earlier request can leave: absent / None / 0..6"""
    st = G.choice(name + '.state', 3)
    if st == 0:
        return 'absent', 0
    if st == 1:
        return None, 0
    v = G.int(name + '.value', 0, 2 ** 16 + 2)
    return v, v


def scen_inject_step(G, content_type, k, fc_mode):
    """one request against an arbitrary session state"""
    from pysx.core import sx_and
    errs = []
    for i in range(k):
        errs.append((_code(G, f'code{i}'), G.int(f'pos{i}', 0, 2 ** 31)))
    seg = G.int('seg_num', 0, 2 ** 31)
    fc = None if fc_mode == 'none' else G.int('failureCount', 0, 2 ** 16)
    codes = [c for c, _ in errs]
    session, counts = {}, {}
    for c in sorted(set(codes)):
        stored, n = _counter_state(G, f'cnt{c}')
        counts[c] = n
        if stored != 'absent':
            session[f'error-{content_type}-{c:06d}'] = stored
    opts = types.SimpleNamespace(failureCount=fc)
    for ct in ('audio', 'video', 'text'):
        setattr(opts, ct + 'Errors', errs if ct == content_type else [])
    h = _handler()

    def call():
        with _flask_ctx(G, session):
            return _status(h.check_for_synthetic_http_error(content_type, seg, opts))
    kind, got = _outcome(call)
    # reference model: first listed entry for this number that is not exhausted
    want = None
    live = dict(counts)
    for code, pos in errs:
        if bool(pos != seg):
            continue
        if code >= 500 and fc is not None:
            live[code] += 1
            if bool(live[code] > fc):
                live[code] = 0
                continue
        want = code
        break
    return {'errs': errs, 'seg': seg, 'fc': fc, 'session': session, 'outcome': kind, 'got': got, 'want': want}


def h_inject_step(sx, content_type, k, fc_mode):
    r = scen_inject_step(SymG(sx), content_type, k, fc_mode)
    det = {kk: r[kk] for kk in ('errs', 'seg', 'fc', 'session', 'outcome', 'got', 'want')}
    sx.prove(r['outcome'] == 'ok' and r['got'] == r['want'], 'C16.inject.step', detail=det)
    sx.note('expect', {'outcome': r['outcome'], 'got': r['got']})


def scen_inject_seq(G, n):
    """n consecutive requests of one client (fresh session) against one error entry"""
    code = _code(G, 'code')
    pos = G.int('pos', 0, 2 ** 31)
    fc = G.int('failureCount', 0, 2 ** 16) if G.bool('has_fc') else None
    segs = [G.int(f'seg{i}', 0, 2 ** 31) for i in range(n)]
    opts = types.SimpleNamespace(failureCount=fc, videoErrors=[(code, pos)], audioErrors=[], textErrors=[])
    h = _handler()
    got, want = [], []
    run = 0           # consecutive synthetic 5xx answers so far
    with _flask_ctx(G):
        for s in segs:
            kind, st = _outcome(lambda: _status(h.check_for_synthetic_http_error('video', s, opts)))
            got.append(st if kind == 'ok' else kind)
            if bool(s != pos):
                want.append(None)
                continue
            if code < 500 or fc is None:
                want.append(code)
                continue
            if bool(run < fc):
                run += 1
                want.append(code)
            else:
                run = 0
                want.append(None)
    return {'code': code, 'pos': pos, 'fc': fc, 'segs': segs, 'got': got, 'want': want}


def h_inject_seq(sx, n):
    r = scen_inject_seq(SymG(sx), n)
    sx.prove(r['got'] == r['want'], 'C16.inject.seq', detail=dict(r))
    sx.note('expect', {'got': r['got']})


def scen_inject_manifest(G, fc_mode):
    """ServeManifest.check_for_synthetic_manifest_error with numeric positions (update count)"""
    from dashlive.server.requesthandler.manifest_requests import ServeManifest
    k = 2
    errs = [(_code(G, f'code{i}'), G.int(f'pos{i}', 0, 2 ** 31)) for i in range(k)]
    codes = [c for c, _ in errs]
    upd = G.int('updateCount', 0, 2 ** 31) if G.bool('has_update_count') else None
    fc = None if fc_mode == 'none' else G.int('failureCount', 0, 2 ** 16)
    session, counts = {}, {}
    for c in sorted(set(codes)):
        stored, nn = _counter_state(G, f'cnt{c}')
        counts[c] = nn
        if stored != 'absent':
            session[f'error-manifest-{c:06d}'] = stored
    opts = types.SimpleNamespace(failureCount=fc, manifestErrors=errs, updateCount=upd)
    h = object.__new__(ServeManifest)

    def call():
        with _flask_ctx(G, session):
            return _status(h.check_for_synthetic_manifest_error(opts, {'mpd': None}))
    kind, got = _outcome(call)
    want = None
    live = dict(counts)
    for code, pos in errs:
        if upd is None or bool(pos != upd):
            continue
        if code >= 500 and fc is not None:
            live[code] += 1
            if bool(live[code] > fc):
                live[code] = 0
                continue
        want = code
        break
    return {'errs': errs, 'updateCount': upd, 'fc': fc, 'session': session, 'outcome': kind, 'got': got, 'want': want}


def scen_inject_manifest_time(G, ast_kind, mup_kind):
    """time-of-day positions: the error is produced while now is within [t, t + update period]"""
    import datetime
    from dashlive.server.requesthandler.manifest_requests import ServeManifest
    from dashlive.utils.timezone import UTC
    ast = datetime.datetime(2024, 1, 1, 0, 0, 0, tzinfo=UTC())
    hh, mm, ss = G.int('hour', 0, 23), G.int('minute', 0, 59), G.int('second', 0, 59)
    code = _code(G, 'code')
    elapsed = G.int('elapsed_s', 0, 86399)
    mode = ['live', 'vod'][G.choice('mode', 2)]
    if mup_kind == 'none':
        mup_opt, mup_eff = None, 8
    elif mup_kind == 'never':
        mup_opt, mup_eff = -1, None
    else:
        mup_opt = G.int('mup', 1, 3600)
        mup_eff = mup_opt
    if G.real:
        pos = datetime.time(hh, mm, ss, tzinfo=UTC())
        mast = ast
        now = ast + datetime.timedelta(seconds=elapsed)
    else:
        from pysx import dt
        pos = types.SimpleNamespace(hour=hh, minute=mm, second=ss)
        mast = dt.as_symdt(ast)
        now = dt.SymDatetime(dt.real_wall(ast) + elapsed * 1000000, ast.tzinfo)
    opts = types.SimpleNamespace(failureCount=None, manifestErrors=[(code, pos)], updateCount=None, mode=mode,
                                 availabilityStartTime=('year' if ast_kind == 'name' else ast),
                                 minimumUpdatePeriod=mup_opt)
    mpd = types.SimpleNamespace(now=now)
    if mode == 'live':
        mpd.availabilityStartTime = mast
        mpd.minimumUpdatePeriod = mup_eff
    h = object.__new__(ServeManifest)

    def call():
        with _flask_ctx(G):
            return _status(h.check_for_synthetic_manifest_error(opts, {'mpd': mpd}))
    kind, got = _outcome(call)
    t = hh * 3600 + mm * 60 + ss
    inside = mode == 'live' and bool(t <= elapsed) and bool(elapsed <= t + (mup_eff or 0))
    return {'pos': [hh, mm, ss], 'elapsed_s': elapsed, 'mode': mode, 'mup': mup_opt, 'ast': ast_kind,
            'outcome': kind, 'got': got, 'want': code if inside else None}


def h_inject_manifest_time(sx, ast_kind, mup_kind):
    r = scen_inject_manifest_time(SymG(sx), ast_kind, mup_kind)
    sx.prove(r['outcome'] == 'ok' and r['got'] == r['want'], 'C16.inject.manifest', detail=dict(r))
    sx.note('expect', {'outcome': r['outcome'], 'got': r['got']})


def h_inject_manifest(sx, fc_mode):
    r = scen_inject_manifest(SymG(sx), fc_mode)
    sx.prove(r['outcome'] == 'ok' and r['got'] == r['want'], 'C16.inject.manifest', detail=dict(r))
    sx.note('expect', {'outcome': r['outcome'], 'got': r['got']})


# ---------------------------------------------------------------------------
# scenario: event scheduling with values the option parser lets through

def scen_events(G, cls_name, interval, te, version, inband):
    from dashlive.server.events.ping_pong import PingPongEvents
    from dashlive.server.events.scte35_events import Scte35Events
    B = 2 ** 40
    raw = {'start': G.int('start', -B, B),
           'count': G.int('count', -B, B if inband else 6),
           'duration': G.int('ev_duration', -B, B),
           'interval': interval, 'timescale': te, 'version': version}
    a = G.int('seg_start', 0, 2 ** 40)
    d = G.int('seg_duration', 1, 8)
    # the values reach the generator through the event options' own parsers
    vals = {}
    for key, v in raw.items():
        opt = [o for o in _all_options() if o.prefix == cls_name and o.full_name == key][0]
        kind, val = _outcome(lambda: opt.from_string(str(v) if isinstance(v, int) else _itoa(v)))
        if kind == 'ValueError':
            return dict(_ev_inputs(raw, a, d), outcome='ok', value='rejected by the option parser (400): ' + key)
        if kind != 'ok':
            return dict(_ev_inputs(raw, a, d), outcome=kind, value=val)
        vals[key] = val
    start, count, duration = vals['start'], vals['count'], vals['duration']
    interval, te, version = vals['interval'], vals['timescale'], vals['version']
    cls = PingPongEvents if cls_name == 'ping' else Scte35Events
    tr = 100
    moof = types.SimpleNamespace(traf=types.SimpleNamespace(tfdt=types.SimpleNamespace(base_media_decode_time=a)))
    rep = types.SimpleNamespace(timescale=tr, segments=[None, types.SimpleNamespace(duration=d)])

    def run():
        ev = cls(start=start, count=count, interval=interval, duration=duration, timescale=te,
                 version=version, inband=inband, value='0')
        with _flask_ctx(G):
            if inband:
                boxes = ev.create_emsg_boxes(segment_num=1, mod_segment=1, moof=moof, representation=rep)
                for b in boxes:
                    b.encode()
                return len(boxes)
            stream = ev.create_manifest_context({})
            return len(stream.events)
    if G.real:
        kind, val = _timed(run)
    else:
        from pysx import core
        try:
            kind, val = _outcome(run)
        except core.BoundExceeded as e:
            core.ctx().max_decisions *= 20
            kind, val = 'RUNS-WITHOUT-BOUND', str(e)
    return dict(_ev_inputs(raw, a, d), outcome=kind, value=val)


def _ev_inputs(raw, a, d):
    return {'start': raw['start'], 'count': raw['count'], 'ev_duration': raw['duration'], 'seg_start': a, 'seg_duration': d}


def _events_region(r):
    """known finding: a schedule value that does not fit its emsg field (event_duration, id and
    presentation_time_delta are 32 bit, presentation_time 64 bit) fails in EventMessageBox.encode"""
    if r['outcome'] == 'error' and 'format requires' in str(r['value']):
        return '@emsg_field_range'
    return ''


def h_events(sx, cls_name, interval, te, version, inband):
    r = scen_events(SymG(sx), cls_name, interval, te, version, inband)
    region = _events_region(r)
    sx.prove(r['outcome'] == 'ok', 'C16.events' + region, detail=dict(r, interval=interval, timescale=te))
    sx.note('expect', {'outcome': r['outcome']})


# ---------------------------------------------------------------------------
# scenario: the http-ntp / xsd time endpoint

def scen_ntp(G, method):
    import datetime
    from dashlive.server.requesthandler.utctime import UTCTimeHandler
    from dashlive.utils.timezone import UTC
    from . import common
    us = G.int('now_us', 0, 250 * 366 * 86400 * 10 ** 6)          # 1970 .. ~2220
    drift = G.int('drift', -2 ** 31, 2 ** 31)
    has_drift = G.bool('has_drift')
    args = {'drift': str(drift) if G.real else _itoa(drift)} if has_drift else {}
    h = object.__new__(UTCTimeHandler)

    epoch = datetime.datetime(1970, 1, 1, tzinfo=UTC())

    def run():
        if G.real:
            from dashlive.server.requesthandler import utctime
            clock = common.FrozenClock(utctime, epoch + datetime.timedelta(microseconds=us))
        else:
            from pysx import core, dt
            now = dt.SymDatetime(dt.real_wall(epoch) + us, epoch.tzinfo)
            core.ctx().env['now'] = lambda tz=None: now
            clock = _Null()
        with clock:
            with _flask_ctx(G) as _:
                _set_args(G, args)
                resp = h.get(method)
        if isinstance(resp, tuple):
            body = resp[0]
        elif hasattr(resp, 'get_data'):
            body = resp.get_data()
        else:
            body = resp
        return _status(resp), len(body)
    kind, val = _outcome(run)
    return {'now_us': us, 'drift': drift if has_drift else None, 'outcome': kind, 'value': val}


class _Null:
    def __enter__(self):
        return self

    def __exit__(self, *a):
        return False


def _itoa(v):
    from pysx import text
    return text.sx_str(v)


def _set_args(G, args):
    if G.real:
        import flask
        flask.request.args = args
    else:
        from pysx import env
        env.flask_env.request.args = args


def h_ntp(sx, method):
    r = scen_ntp(SymG(sx), method)
    sx.prove(r['outcome'] == 'ok', 'C16.ntp', detail=dict(r, method=method))
    sx.note('expect', {'outcome': r['outcome']})


# ---------------------------------------------------------------------------
# scenario: MP4 parser on a fixture with a corrupted box size / truncated input

# (the 48 KB audio segments are left out of the size / cut modes: a symbolic cursor over the
# repository's bucketed BufferedReader forks per bucket and ran past the 600 s instance budget)
MP4_FILES = ['moov', 'enc-moov', 'tseg', 'ebuttd', 'emsg-boxes']
MP4_FILES_T = MP4_FILES + ['hevc-moov', 'eac3-moov', 'webvtt', 'moov-v1', 'tseg-trun-all']


def _flat_boxes(name):
    from . import c04_mp4_roundtrip as c04
    from . import media_kernel as mk
    data = c04.file_bytes(name)
    out = []

    def rec(bs, path):
        for b in bs:
            out.append((path + b.type, b.start, b.size))
            rec(getattr(b, 'children', None) or [], path + b.type + '.')
    rec(mk.walk(data), '')
    return data, out


def _payload_words(name):
    """4-byte aligned words of box payloads (box headers and large mdat tails excluded)"""
    from . import c04_mp4_roundtrip as c04
    data, boxes = _flat_boxes(name)
    hdr = set()
    for path, start, size in boxes:
        hdr.update(range(start, start + 8))
    skip = c04._candidate_ranges(data)
    out = []
    for w in range(0, len(data) - 3, 4):
        if any(i in hdr for i in range(w, w + 4)):
            continue
        if any(a <= w < b for a, b in skip):
            continue
        out.append(w)
    return data, out


def _load_like_the_endpoints(buf, kw, lazy, real):
    """Mp4Atom.load through the repository's own BufferedReader, as the inspect / index endpoints do"""
    from dashlive.mpeg import mp4
    from dashlive.utils.buffered_reader import BufferedReader
    if real:
        import io
        raw = io.BytesIO(buf)
    else:
        from pysx import iomodel
        raw = iomodel.SxBytesIO(buf)
    src = BufferedReader(raw)
    return mp4.Mp4Atom.load(src, options=mp4.Options(mode='r', lazy_load=lazy, **kw), use_wrapper=True)


def scen_mp4(G, name, box, lazy, mode):
    """mode 'size': the 32-bit size field of one box is any value; mode 'cut': the input ends at any
    of the 12 bytes after that box's start (header and first fields cut short) with the box's
    own size field symbolic as well; mode 'word': one 4-byte payload word (version/flags, counts,
    times, offsets ...) is symbolic"""
    from . import c04_mp4_roundtrip as c04
    kw = c04.FILES[name][2]
    if mode == 'word':
        data, words = _payload_words(name)
        start = words[box]
        # name the field by its box and its offset inside the box
        _, boxes = _flat_boxes(name)
        inner = [(p, st, sz) for p, st, sz in boxes if st <= start < st + sz]
        bp, bst, _sz = max(inner, key=lambda t: t[1]) if inner else ('?', 0, 0)
        path = f'{bp}+{start - bst}'
    else:
        data, boxes = _flat_boxes(name)
        path, start, size0 = boxes[box]
    true_val = int.from_bytes(data[start:start + 4], 'big')
    bs = [G.int(f'size[{i}]', 0, 255) for i in range(4)]
    cut = None
    if mode == 'cut':
        cut = start + G.choice('cut', 13)
    if G.real:
        buf = bytearray(data)
        buf[start:start + 4] = bytes(bs)
        buf = bytes(buf if cut is None else buf[:cut])
    else:
        from pysx.bytes_ import SymBytes
        from pysx.core import sx_or, sx_and
        from pysx import core
        sz = ((bs[0] * 256 + bs[1]) * 256 + bs[2]) * 256 + bs[3]
        # every value behaves differently up to the end of the file; the claim covers the windows
        # where the arithmetic changes: tiny values, the true value +-8, the end of the file +-8, huge
        wins = [sz <= 24, sx_and(sz >= true_val - 8, sz <= true_val + 8)]
        if mode == 'word':
            wins += [sx_and(sz >= 2 ** 31 - 9, sz <= 2 ** 31 + 8), sz >= 2 ** 32 - 9]
        else:
            wins += [sx_and(sz >= len(data) - start - 8, sz <= len(data) - start + 8), sz >= 2 ** 31 - 1]
        G.sx.assume(sx_or(*wins), 'field value in [0,24], true value +-8, (sizes: distance to end of file +-8, >= 2**31-1) (words: 2**31 +-8, >= 2**32-9)')
        buf = SymBytes.make(data, {start + i: bs[i] for i in range(4) if not isinstance(bs[i], int)})
        if cut is not None:
            buf = buf[:cut]
        core.ctx().env['range_limit'] = 20000
        core.ctx().env['tick_limit'] = max(3000, len(data) // 4)     # while-iterations per path; reads tick the reader's bucket loop
        core.ctx().env['utf8_nondet'] = True

    def run():
        atom = _load_like_the_endpoints(buf, kw, lazy, G.real)
        if lazy:
            c04._force_lazy(atom)
        return len(atom.children)
    if G.real:
        kind, val = _timed(run, 5)
    else:
        from pysx import core
        try:
            kind, val = _outcome(run)
        except core.BoundExceeded as e:
            core.ctx().max_decisions *= 20
            kind, val = 'RUNS-WITHOUT-BOUND', str(e)
    site = None if kind in ('ok', 'RUNS-WITHOUT-BOUND') else _LAST['site']
    return {'file': name, 'box': path, 'offset': start, 'size_bytes': bs, 'cut': cut, 'outcome': kind,
            'value': val if kind != 'ok' else None, 'site': site}


def h_mp4(sx, name, box, lazy, mode):
    r = scen_mp4(SymG(sx), name, box, lazy, mode)
    ok = r['outcome'] == 'ok' or r['outcome'] in FAMILY
    region = '' if ok else f"@{r['outcome']}:{r['site'] if r['site'] else r['box'].split('.')[-1]}"
    sx.prove(ok, 'C16.mp4' + region, detail=dict(r))
    from pysx import core
    if not core.ctx().env.get('nondet_used'):      # an over-approximated step has no single expected outcome
        sx.note('expect', {'outcome': r['outcome'], 'site': r['site']})


# ---------------------------------------------------------------------------

def instances(tier):
    out = []
    maxn = 3 if tier == 'quick' else 4
    for key, cgi in sorted(_parser_table().items()):
        slow = any(w in key for w in ('ast_from_string', 'datetime_or_none', 'float_or_none', '_drm_selection', '_errors_from'))
        top = maxn - 1 if slow else maxn
        if any(w in key for w in ('ast_from_string', 'datetime_or_none')):
            top = min(top, 2)        # three symbolic characters through three strptime formats ran past 10 minutes
        for n in range(0, top + 1):
            out.append({'name': f'opt[{key},{n}]', 'fn': h_opt, 'params': {'cgi_name': cgi, 'n': n},
                        'opts': {'max_paths': 60000, 'max_decisions': 400, 'fork_limit': 130},
                        'weight': 5 ** n})
    words = 2        # three words (4000 texts x consumers, > 60000 paths) ran past 20 minutes in the thorough tier
    for w in range(1, words + 1):
        out.append({'name': f'drm[{w}]', 'fn': h_drm, 'params': {'words': w},
                    'opts': {'max_paths': 400000, 'fork_limit': 130}, 'weight': 10 ** w})
    out.append({'name': 'time', 'fn': h_time, 'params': {}, 'opts': {'fork_limit': 130}})
    for items in ([1, 2] if tier == 'thorough' else [1]):
        out.append({'name': f'errs[{items}]', 'fn': h_errs, 'params': {'items': items},
                    'opts': {'max_paths': 60000, 'fork_limit': 130}, 'weight': 60 ** items})
    for ct in ('video', 'audio', 'text'):
        for k in (1, 2):
            for fcm in ('none', 'int'):
                if tier == 'quick' and ct != 'video' and k == 2:
                    continue
                out.append({'name': f'inject.step[{ct},{k},{fcm}]', 'fn': h_inject_step,
                            'params': {'content_type': ct, 'k': k, 'fc_mode': fcm},
                            'opts': {'max_paths': 200000, 'fork_limit': 256}, 'weight': 200 ** k})
    out.append({'name': 'inject.seq', 'fn': h_inject_seq, 'params': {'n': 4 if tier == 'quick' else 6},
                'opts': {'max_paths': 200000, 'fork_limit': 256}, 'weight': 1000})
    for fcm in ('none', 'int'):
        out.append({'name': f'inject.manifest[{fcm}]', 'fn': h_inject_manifest, 'params': {'fc_mode': fcm},
                    'opts': {'max_paths': 200000, 'fork_limit': 256}, 'weight': 1000})
    for ast_kind in ('name', 'datetime'):
        for mup_kind in ('none', 'never', 'int'):
            out.append({'name': f'inject.manifest.time[{ast_kind},{mup_kind}]', 'fn': h_inject_manifest_time,
                        'params': {'ast_kind': ast_kind, 'mup_kind': mup_kind}, 'opts': {}, 'weight': 100})
    for cls_name in ('ping', 'scte35'):
        for interval in INTERVALS:
            for te in EV_TIMESCALES:
                for version in (0, 1):
                    for inband in (True, False):
                        if tier == 'quick' and (version == 0 and cls_name == 'scte35'):
                            continue
                        if cls_name == 'scte35' and not inband:
                            continue        # renders events/scte35_xml through the application's Jinja environment (outside)
                        if cls_name == 'scte35' and (interval == 1 or (interval > 0 and te == 100)):
                            continue        # many symbolic splice signals per path: scheduling is shared with ping; C14 covers scte35 payloads
                        out.append({'name': f'events[{cls_name},i={interval},te={te},v{version},{"inband" if inband else "mpd"}]',
                                    'fn': h_events,
                                    'params': {'cls_name': cls_name, 'interval': interval, 'te': te,
                                               'version': version, 'inband': inband},
                                    'opts': {'max_paths': 4000, 'max_decisions': 300}, 'weight': 50})
    for method in ('http-ntp', 'xsd'):
        out.append({'name': f'ntp[{method}]', 'fn': h_ntp, 'params': {'method': method}, 'opts': {}})
    for name in (MP4_FILES if tier == 'quick' else MP4_FILES_T):
        _, boxes = _flat_boxes(name)
        for k, (path, start, size) in enumerate(boxes):
            for lazy in (False, True):
                for mode in ('size', 'cut'):
                    if tier == 'quick' and (lazy and mode == 'cut'):
                        continue
                    if lazy and name in ('aseg', 'enc-seg'):
                        continue        # forcing every lazily loaded sample box of a 48 KB segment: minutes per instance
                    out.append({'name': f'mp4[{name},{path}@{start},{"lazy" if lazy else "eager"},{mode}]', 'fn': h_mp4,
                                'params': {'name': name, 'box': k, 'lazy': lazy, 'mode': mode},
                                'opts': {'max_paths': 6000, 'max_decisions': 400000, 'fork_limit': 1 << 20, 'time_budget_s': 600}, 'weight': 20})
    for name in (['moov', 'tseg', 'ebuttd'] if tier == 'quick' else ['moov', 'tseg', 'ebuttd', 'moov-v1', 'emsg-boxes', 'tseg-trun-all', 'eac3-moov', 'enc-moov', 'enc-seg']):
        _, words = _payload_words(name)
        for k, w in enumerate(words):
            for lazy in ((False,) if tier == 'quick' else (False, True)):
                out.append({'name': f'mp4[{name},word@{w},{"lazy" if lazy else "eager"},word]', 'fn': h_mp4,
                            'params': {'name': name, 'box': k, 'lazy': lazy, 'mode': 'word'},
                            'opts': {'max_paths': 6000, 'max_decisions': 400000, 'fork_limit': 4096, 'time_budget_s': 600}, 'weight': 10})
    if tier == 'quick':
        # encrypted fixtures: only the leading fields of each box (versions, flags, counts, sizes)
        for name in ('enc-seg', 'enc-moov'):
            _, words = _payload_words(name)
            _, boxes = _flat_boxes(name)
            for k, w in enumerate(words):
                inner = [(st, sz) for p_, st, sz in boxes if st <= w < st + sz]
                bst = max(inner)[0] if inner else 0
                if w - bst >= 8 + 16:
                    continue
                out.append({'name': f'mp4[{name},word@{w},eager,word]', 'fn': h_mp4,
                            'params': {'name': name, 'box': k, 'lazy': False, 'mode': 'word'},
                            'opts': {'max_paths': 6000, 'max_decisions': 400000, 'fork_limit': 4096, 'time_budget_s': 600}, 'weight': 10})
    return out


# ---------------------------------------------------------------------------
# concrete side

def _run_real(instance, params, inputs):
    G = RealG(inputs)
    kind = instance.split('[')[0]
    if kind == 'opt':
        r = scen_opt(G, **params)
        return r, {'outcome': r['outcome']}, r['outcome'] not in ('ok', 'ValueError')
    if kind == 'drm':
        r = scen_drm(G, **params)
        return r, {'parse': r['parse'], 'use': r['use']}, not (r['parse'] in ('ok', 'ValueError') and r['use'] in (None, 'ok'))
    if kind == 'time':
        r = scen_time(G)
        return r, {'parse': r['parse'], 'use': r['use']}, not (r['parse'] in ('ok', 'ValueError') and r['use'] in (None, 'ok'))
    if kind == 'errs':
        r = scen_errs(G, **params)
        return r, {'parse': r['parse'], 'use': r['use']}, not (r['parse'] in ('ok', 'ValueError') and r['use'] in (None, 'ok'))
    if kind == 'inject.step':
        r = scen_inject_step(G, **params)
        return r, {'outcome': r['outcome'], 'got': r['got']}, not (r['outcome'] == 'ok' and r['got'] == r['want'])
    if kind == 'inject.seq':
        r = scen_inject_seq(G, **params)
        return r, {'got': r['got']}, r['got'] != r['want']
    if kind == 'inject.manifest.time':
        r = scen_inject_manifest_time(G, **params)
        return r, {'outcome': r['outcome'], 'got': r['got']}, not (r['outcome'] == 'ok' and r['got'] == r['want'])
    if kind == 'inject.manifest':
        r = scen_inject_manifest(G, **params)
        return r, {'outcome': r['outcome'], 'got': r['got']}, not (r['outcome'] == 'ok' and r['got'] == r['want'])
    if kind == 'events':
        r = scen_events(G, **params)
        return r, {'outcome': r['outcome']}, r['outcome'] != 'ok'
    if kind == 'mp4':
        r = scen_mp4(G, **params)
        return r, {'outcome': r['outcome'], 'site': r['site']}, not (r['outcome'] == 'ok' or r['outcome'] in FAMILY)
    if kind == 'ntp':
        r = scen_ntp(G, **params)
        return r, {'outcome': r['outcome']}, r['outcome'] != 'ok'
    raise KeyError(instance)


def observe(instance, params, inputs):
    return _run_real(instance, params, inputs)[1]


def replay(case):
    r, _, violated = _run_real(case['instance'], case['params'], case['inputs'])
    return {'violated': bool(violated), 'observed': {k: (v if isinstance(v, (int, str, type(None), list, dict)) else repr(v))
                                                      for k, v in r.items()}}
