"""C19 - ISO-8601 time text is faithful to the value it encodes.

Encoded: toIsoDuration, from_isodatetime (duration and date-time branches, through the
repository's own regular expressions), to_iso_datetime, parse_timezone, FixedOffsetTimeZone,
timecode_to_timedelta, timedelta_to_timecode, scale_timedelta, multiply_timedelta.
"""
from __future__ import annotations

from fractions import Fraction

from . import common

PROPERTY = 'C19'
DENS = [1000000, 1000, 240, 44100, 48000, 90000, 10000000, 1 << 20]
TIMESCALES = [1, 240, 1000, 12800, 44100, 48000, 90000, 10000000]
XMAX = 10 ** 7     # seconds

ASSUMPTIONS = [
    'C19.tc.inv: "within one tick" is read as max(one tick, one microsecond): datetime.timedelta has microsecond resolution, so a 10 MHz tick (0.1 us) cannot survive the conversion in any implementation',
    'durations: x = N/den seconds with den from ' + repr(DENS) + ' (timedelta.total_seconds() and timecode/timescale values), 0 <= x <= 1e7 s',
    'round-trip tolerance: 0.5 ms + 4 ns (the double nearest to x may differ from x by 1.1e-9 s at 1e7 s)',
    'date-times: any valid calendar instant of years 1..9999, any microsecond, UTC offset any whole minute in [-14h, +14h] or naive',
    'timescales from ' + repr(TIMESCALES) + '; timecodes/timedeltas up to 2**53 ticks / 1e12 us',
]
OUTSIDE = ['NaN / infinite / negative durations', 'arbitrary doubles that are not of the form N/den above',
           'UTC offsets with seconds']


def bounds(tier):
    return {'durations': {'dens': DENS if tier == 'thorough' else DENS[:4], 'x_max_s': XMAX},
            'timescales': TIMESCALES, 'offset_minutes': [-840, 840], 'years': [1, 9999]}


def OBLIGATIONS(tier):
    return ['C19.dur.valid', 'C19.dur.rt', 'C19.dt.rt', 'C19.tc.mono', 'C19.tc.inv', 'C19.scale', 'C19.exc']


# ---------------------------------------------------------------------------
# durations

def _dur_grammar(sx, textv):
    """checks the xs:duration shape of a token string; returns SymBool/bool"""
    from pysx import text
    from pysx.core import sx_and
    pieces = text.split_tokens(textv) if text.has_token(textv) else [textv]
    # flatten to a pattern string: tokens -> 'N', digit runs -> 'n'
    import re
    pat = ''
    vals = []
    for p in pieces:
        if isinstance(p, str):
            for m in re.finditer(r'\d+|[^\d]+', p):
                g = m.group(0)
                if g.isdigit():
                    pat += 'n'
                    vals.append(('lit', g))
                else:
                    pat += g
        else:
            pat += 'n'
            vals.append(('tok', p.x))
    m = re.fullmatch(r'PT(?:(n)H)?(?:(n)M)?(n)(?:\.(n))?S', pat)
    if not m:
        return False, pat
    conds = []
    idx = 0
    names = []
    for gi, nm in ((1, 'h'), (2, 'm'), (3, 's'), (4, 'f')):
        if m.group(gi) is not None:
            names.append(nm)
    for nm, (kind, v) in zip(names, vals):
        if nm in ('m', 's'):
            val = int(v) if kind == 'lit' else v
            conds.append(val < 60)
        if nm == 'f':
            if kind != 'lit':
                return False, pat
            conds.append(1 <= len(v) <= 3 and not v.endswith('0'))
    return sx_and(*conds), pat


def h_duration(sx, den, via):
    """x = N/den; render with toIsoDuration, parse with from_isodatetime."""
    from pysx import floats, dt
    from pysx.core import sx_and
    from dashlive.utils.date_time import toIsoDuration, from_isodatetime
    N = sx.int('N', 0, XMAX * den)
    if via == 'timedelta':
        assert den == 1000000
        arg = dt.SymTimedelta(N)
    else:
        arg = floats.from_int(N) / den
    try:
        textv = toIsoDuration(arg)
    except Exception as e:
        sx.fail('C19.exc', detail={'raised': type(e).__name__, 'msg': str(e)[:80]})
        return
    sx.note('text', textv)
    ok, pat = _dur_grammar(sx, textv)
    sx.prove(ok, 'C19.dur.valid', detail={'text': textv, 'pattern': pat})
    try:
        back = from_isodatetime(textv)
    except Exception as e:
        sx.fail('C19.dur.rt', detail={'text': textv, 'raised': type(e).__name__, 'msg': str(e)[:80]})
        return
    sx.prove(True, 'C19.exc')
    R = dt.td_us(back)          # microseconds
    # |R/1e6 - N/den| <= 0.0005 + 4e-9   <=>  |R*den - N*1e6| <= (500 + 0.004) * den
    diff = R * den - N * 1000000
    tol = 500 * den + (4 * den + 999) // 1000
    sx.prove(sx_and(diff <= tol, -diff <= tol), 'C19.dur.rt',
             detail={'text': textv, 'parsed_us': R, 'N': N, 'den': den})
    sx.note('expect', {'text': textv, 'parsed_us': R})


# ---------------------------------------------------------------------------
# date-times

def h_datetime(sx, tzmode):
    from pysx import dt
    from pysx.core import sx_and
    from dashlive.utils.date_time import to_iso_datetime, from_isodatetime
    from dashlive.utils.timezone import UTC
    y = sx.int('year', 1, 9999)
    m = sx.int('month', 1, 12)
    d = sx.int('day', 1, 31)
    sx.assume(dt.days_in_month_ok(y, m, d))
    h = sx.int('hour', 0, 23)
    mi = sx.int('minute', 0, 59)
    s = sx.int('second', 0, 59)
    us = sx.int('us', 0, 999999)
    if tzmode == 'naive':
        tz = None
    elif tzmode == 'utc':
        tz = UTC()
    else:
        off = sx.int('offset_minutes', -840, 840)
        tz = dt.SymTz(off)
    value = dt.make_datetime(y, m, d, h, mi, s, us, tzinfo=tz)
    try:
        textv = to_iso_datetime(value)
        back = from_isodatetime(textv)
    except Exception as e:
        sx.fail('C19.exc', detail={'raised': type(e).__name__, 'msg': str(e)[:100]})
        return
    sx.prove(True, 'C19.exc')
    sx.note('text', textv)
    b = dt.as_symdt(back)
    # same instant, same offset (a naive value is rendered with 'Z', i.e. as UTC), same microsecond
    want_off = 0 if tz is None else dt._off_us(tz)
    got_off = dt._off_us(b.tzinfo)
    want_utc = value.wall - want_off
    sx.prove(sx_and(b.tzinfo is not None, b.utc_us() == want_utc, got_off == want_off,
                    b.microsecond == us),
             'C19.dt.rt', detail={'text': textv, 'back': back, 'value': value})
    sx.note('expect', {'text': textv, 'back': back})


# ---------------------------------------------------------------------------
# timecodes

def h_timecode(sx, ts, what):
    from pysx import dt
    from pysx.core import sx_and, sx_implies
    from dashlive.utils import date_time as D
    if what == 'mono_tc':
        a = sx.int('a', 0, 2 ** 53)
        b = sx.int('b', 0, 2 ** 53)
        sx.assume(a <= b)
        ta, tb = D.timecode_to_timedelta(a, ts), D.timecode_to_timedelta(b, ts)
        sx.prove(dt.td_us(ta) <= dt.td_us(tb), 'C19.tc.mono', detail={'a': a, 'b': b, 'ta': ta, 'tb': tb})
    elif what == 'mono_td':
        a = sx.int('a', 0, 10 ** 15)
        b = sx.int('b', 0, 10 ** 15)
        sx.assume(a <= b)
        ca, cb = D.timedelta_to_timecode(dt.mk_td(a), ts), D.timedelta_to_timecode(dt.mk_td(b), ts)
        sx.prove(ca <= cb, 'C19.tc.mono', detail={'a': a, 'b': b, 'ca': ca, 'cb': cb})
    elif what == 'inv_tc':
        c = sx.int('c', 0, 2 ** 53)
        back = D.timedelta_to_timecode(D.timecode_to_timedelta(c, ts), ts)
        tol = max(1, -(-ts // 1000000))   # one tick, or one microsecond where a tick is shorter than that
        sx.prove(sx_and(back - c <= tol, c - back <= tol), 'C19.tc.inv', detail={'c': c, 'back': back})
        sx.note('expect', {'back': back})
    elif what == 'inv_td':
        d = sx.int('d', 0, 10 ** 15)
        back = D.timecode_to_timedelta(D.timedelta_to_timecode(dt.mk_td(d), ts), ts)
        tick_us = -(-1000000 // ts)   # ceil(1e6 / ts)
        diff = dt.td_us(back) - d
        sx.prove(sx_and(diff <= tick_us, -diff <= tick_us), 'C19.tc.inv', detail={'d': d, 'back': back})
        sx.note('expect', {'back': back})
    elif what == 'scale':
        num = ts
        # scale_timedelta is claimed while the numerator (seconds * num) stays below 2**52
        d = sx.int('d', 0, min(10 ** 15, (2 ** 52 * 1000000) // num - 1000000))
        den = sx.int('den', 1, 64)
        den = den.concrete('scale denominator')
        r = D.scale_timedelta(dt.mk_td(d), num, den)
        ri = r.__trunc__() if hasattr(r, '__trunc__') else int(r)
        # floor(d[us] * num / (1e6 * den)) -- computed by the code as (whole seconds * num) / den
        from pysx.core import sx_divmod
        whole = sx_divmod(d * num, 1000000)[0]
        want = sx_divmod(whole, den)[0]
        sx.prove(ri == want, 'C19.scale', detail={'d': d, 'num': num, 'den': den, 'got': ri, 'want': want})
        m = D.multiply_timedelta(dt.mk_td(d), num)
        sx.prove(m == whole, 'C19.scale', detail={'d': d, 'num': num, 'multiply': m, 'want': whole})


def instances(tier):
    B = bounds(tier)
    out = []
    for den in B['durations']['dens']:
        out.append({'name': f'duration[float,den={den}]', 'fn': h_duration, 'weight': 5,
                    'params': {'den': den, 'via': 'float'},
                    'opts': {'fork_limit': 1100, 'max_paths': 200000}})
    out.append({'name': 'duration[timedelta]', 'fn': h_duration, 'weight': 5,
                'params': {'den': 1000000, 'via': 'timedelta'},
                'opts': {'fork_limit': 1100, 'max_paths': 200000}})
    for tzmode in ('naive', 'utc', 'offset'):
        out.append({'name': f'datetime[{tzmode}]', 'fn': h_datetime, 'params': {'tzmode': tzmode}})
    for ts in TIMESCALES:
        for what in ('mono_tc', 'mono_td', 'inv_tc', 'inv_td', 'scale'):
            out.append({'name': f'timecode[{what},ts={ts}]', 'fn': h_timecode,
                        'params': {'ts': ts, 'what': what}})
    return out


# ---------------------------------------------------------------------------
# concrete side

def _x_of(params, inputs):
    import datetime
    N, den = inputs['N'], params['den']
    if params['via'] == 'timedelta':
        return datetime.timedelta(microseconds=N), Fraction(N, den)
    return float(N) / den, Fraction(N, den)


def _dur_check(arg, exact):
    import re
    from dashlive.utils.date_time import toIsoDuration, from_isodatetime
    textv = toIsoDuration(arg)
    bad = []
    m = re.fullmatch(r'PT(?:(\d+)H)?(?:(\d+)M)?(\d+)(?:\.(\d{1,3}))?S', textv)
    if not m or (m.group(2) and int(m.group(2)) >= 60) or int(m.group(3)) >= 60 \
            or (m.group(4) and m.group(4).endswith('0')):
        bad.append('C19.dur.valid')
    try:
        back = from_isodatetime(textv)
        R = (back.days * 86400 + back.seconds) * 1000000 + back.microseconds
        if abs(Fraction(R, 1000000) - exact) > Fraction(5, 10000) + Fraction(4, 10 ** 9):
            bad.append('C19.dur.rt')
    except Exception as e:
        bad.append('C19.dur.rt')
        R = f'{type(e).__name__}'
    return textv, R, bad


def observe(instance, params, inputs):
    import datetime
    if instance.startswith('duration['):
        arg, exact = _x_of(params, inputs)
        textv, R, bad = _dur_check(arg, exact)
        return {'text': textv, 'parsed_us': R}
    if instance.startswith('datetime['):
        from dashlive.utils.date_time import to_iso_datetime, from_isodatetime
        value = _real_dt(params, inputs)
        textv = to_iso_datetime(value)
        return {'text': textv, 'back': from_isodatetime(textv).isoformat()}
    from dashlive.utils import date_time as D
    ts, what = params['ts'], params['what']
    if what == 'inv_tc':
        return {'back': D.timedelta_to_timecode(D.timecode_to_timedelta(inputs['c'], ts), ts)}
    if what == 'inv_td':
        t = D.timecode_to_timedelta(D.timedelta_to_timecode(datetime.timedelta(microseconds=inputs['d']), ts), ts)
        return {'back': f'{(t.days * 86400 + t.seconds) * 1000000 + t.microseconds}us'}
    return None


def _real_dt(params, inputs):
    import datetime
    from dashlive.utils.timezone import UTC
    tzmode = params['tzmode']
    if tzmode == 'naive':
        tz = None
    elif tzmode == 'utc':
        tz = UTC()
    else:
        tz = datetime.timezone(datetime.timedelta(minutes=inputs['offset_minutes']))
    return datetime.datetime(inputs['year'], inputs['month'], inputs['day'], inputs['hour'],
                             inputs['minute'], inputs['second'], inputs['us'], tzinfo=tz)


def replay(case):
    import datetime
    params, inputs, label, inst = case['params'], case['inputs'], case['label'], case['instance']
    try:
        if inst.startswith('duration['):
            # float-uncertain candidates: the solver's witness and a neighbourhood of it
            den = params['den']
            seen = None
            for delta in [0] + [s * k for k in range(1, 41) for s in (1, -1)]:
                N = inputs['N'] + delta
                if N < 0:
                    continue
                arg, exact = _x_of(params, dict(inputs, N=N))
                textv, R, bad = _dur_check(arg, exact)
                if seen is None:
                    seen = {'N': N, 'den': den, 'text': textv, 'parsed_us': R, 'violated_obligations': bad}
                if label in bad:
                    return {'violated': True, 'observed': {'N': N, 'den': den, 'x': str(exact), 'text': textv,
                                                           'parsed_us': R, 'violated_obligations': bad}}
            return {'violated': False, 'observed': seen}
        if inst.startswith('datetime['):
            from dashlive.utils.date_time import to_iso_datetime, from_isodatetime
            seen = None
            for delta in [0] + [s * k for k in range(1, 65) for s in (1, -1)]:
                us = inputs['us'] + delta
                if not 0 <= us <= 999999:
                    continue
                value = _real_dt(params, dict(inputs, us=us))
                textv = to_iso_datetime(value)
                back = from_isodatetime(textv)
                ref = value if value.tzinfo is not None else value.replace(tzinfo=datetime.timezone.utc)
                ok = (back.tzinfo is not None and back == ref and back.utcoffset() == ref.utcoffset()
                      and back.microsecond == value.microsecond)
                obs = {'value': value.isoformat(), 'text': textv, 'back': back.isoformat()}
                if seen is None:
                    seen = obs
                if not ok:
                    return {'violated': True, 'observed': obs}
            return {'violated': False, 'observed': seen}
        # timecodes
        from dashlive.utils import date_time as D
        ts, what = params['ts'], params['what']
        td = lambda us: datetime.timedelta(microseconds=us)
        tdus = lambda t: (t.days * 86400 + t.seconds) * 1000000 + t.microseconds
        if what == 'mono_tc':
            a, b = inputs['a'], inputs['b']
            v = not (D.timecode_to_timedelta(a, ts) <= D.timecode_to_timedelta(b, ts))
            return {'violated': v, 'observed': {'a': a, 'b': b}}
        if what == 'mono_td':
            a, b = inputs['a'], inputs['b']
            v = not (D.timedelta_to_timecode(td(a), ts) <= D.timedelta_to_timecode(td(b), ts))
            return {'violated': v, 'observed': {'a': a, 'b': b}}
        if what == 'inv_tc':
            c = inputs['c']
            back = D.timedelta_to_timecode(D.timecode_to_timedelta(c, ts), ts)
            return {'violated': abs(back - c) > max(1, -(-ts // 1000000)), 'observed': {'c': c, 'back': back}}
        if what == 'inv_td':
            d = inputs['d']
            back = tdus(D.timecode_to_timedelta(D.timedelta_to_timecode(td(d), ts), ts))
            return {'violated': abs(back - d) > -(-1000000 // ts), 'observed': {'d': d, 'back': back}}
        d, den = inputs['d'], inputs['den']
        r = int(D.scale_timedelta(td(d), ts, den))
        want = (d * ts // 1000000) // den
        m = D.multiply_timedelta(td(d), ts)
        return {'violated': r != want or m != d * ts // 1000000,
                'observed': {'d': d, 'num': ts, 'den': den, 'got': r, 'want': want, 'multiply': m}}
    except Exception as e:
        return {'violated': True, 'observed': {'raised': type(e).__name__, 'msg': str(e)[:200]}}
