"""C20 - the windowed BufferedReader behaves like an in-memory stream over its window.

Inductive step (DESIGN.md 5 C20): an arbitrary reader state satisfying the representation
invariant is built directly on a real BufferedReader instance (real class, instrumented
source), one operation with symbolic arguments runs, and the post-state/result are compared
with slice semantics.  The underlying file is a pysx.rope.SymFile of symbolic length; data
are ropes of file index ranges, so "returns the right bytes" is an equality of index
sequences valid for every file content.  The clock stub returns unconstrained timestamps,
so every eviction order is explored.
"""
from __future__ import annotations

PROPERTY = 'C20'

ASSUMPTIONS = [
    'underlying reader: seek/tell/read semantics of a raw binary file of length F (pysx.rope.SymFile)',
    'explicit-size windows lie inside the file: offset + size <= F',
    'read(n) is claimed for n >= -1, peek(n) for n >= 1 (its documented precondition)',
    'lazy mode (size=None): positions clamp to [0, size] once the size has been discovered; before that only the lower clamp applies',
    'time.time() returns arbitrary values (every LRU eviction order)',
]
OUTSIDE = ['buffer sizes other than the listed ones', 'windows larger than the stated bound',
           'read(n) with n < -1']


def bounds(tier, explicit=True):
    if tier == 'quick':
        if explicit:
            return {'buffersize': [3, 4], 'max_buffers': [2], 'window_size_max': 9, 'offset_max': 8,
                    'file_extra_max': 6, 'arg_range': [-12, 12], 'sequence_len': 2,
                    'lazy_mode': {'window_size_max': 6, 'arg_range': [-8, 8]}}
        return {'buffersize': [3, 4], 'max_buffers': [2], 'window_size_max': 6, 'offset_max': 8,
                'file_extra_max': 0, 'arg_range': [-8, 8], 'sequence_len': 2}
    if explicit:
        # sized by wall time: buffersize 1..8 x window 16 ran past 40 minutes, 2..5 x 12 past 30
        return {'buffersize': [2, 3, 4], 'max_buffers': [2, 3], 'window_size_max': 10, 'offset_max': 10,
                'file_extra_max': 7, 'arg_range': [-13, 13], 'sequence_len': 2,
                'lazy_mode': {'window_size_max': 7, 'arg_range': [-9, 9]}}
    return {'buffersize': [2, 3, 4], 'max_buffers': [2, 3], 'window_size_max': 7, 'offset_max': 10,
            'file_extra_max': 0, 'arg_range': [-9, 9], 'sequence_len': 2}


def OBLIGATIONS(tier):
    return ['C20.read', 'C20.readall', 'C20.peek', 'C20.seek', 'C20.inv', 'C20.init', 'C20.exc']


OPS = ['read', 'readall', 'peek', 'seek0', 'seek1', 'seek2', 'tell']


def _mk_state(sx, bs, mb, explicit, B):
    """Arbitrary reader state satisfying the invariant.  Returns (reader, info)."""
    from pysx import rope
    from pysx.core import sx_min, sx_max, ctx
    from dashlive.utils.buffered_reader import BufferedReader, Buffer
    off = sx.int('off', 0, B['offset_max'])
    W = sx.int('W', 0, B['window_size_max'])           # true window size
    if explicit:
        extra = sx.int('extra', 0, B['file_extra_max'])
        F = off + W + extra
    else:
        F = off + W
    fpos = sx.int('fpos', 0, B['offset_max'] + B['window_size_max'] + B['file_extra_max'])
    f = rope.SymFile(F, fpos)
    cx = ctx()
    cx.env['time.time'] = lambda: cx.fresh_int('ts', 0, 1000)
    r = BufferedReader(f, buffersize=bs, offset=off, size=(W if explicit else None), max_buffers=mb)
    known = True
    if not explicit:
        known = bool(sx.bool('size_known'))
        if known:
            r.size = W
    if known:
        pos = sx.int('pos', 0, B['window_size_max'])
        sx.assume(pos <= W)
    else:
        pos = sx.int('pos', 0, B['window_size_max'] + 4)
    r.pos = pos
    # cached buckets: any subset (<= max_buffers) of the keys a history can have touched
    kmax = B['window_size_max'] + (bs if not explicit else 0)
    count = 0
    cached = []
    for k in range(0, kmax + 1, bs):
        if count >= mb:
            break
        if not bool(sx.bool(f'cached[{k}]')):
            continue
        if explicit or known:
            # a bucket is only ever fetched when it overlaps [pos, pos+n) inside the known window,
            # or (lazy mode) while the size was being discovered
            if explicit:
                sx.assume(k < W)
        else:
            # size unknown: every cached bucket was a full read
            sx.assume(F - off - k >= bs)
        start = sx_min(off + k, F)
        end = sx_min(off + k + bs, F)
        b = Buffer(k, rope.Rope([(start, end)]))
        r.buffers[k] = b
        count += 1
        cached.append(k)
    r.num_buffers = count
    if not explicit and known:
        # size discovered => some read was short; nothing more to constrain
        pass
    sx.note('cached', cached)
    return r, {'off': off, 'W': W, 'F': F, 'pos': pos, 'known': known, 'file': f}


def _inv(sx, r, info, bs, mb, label='C20.inv'):
    """Representation invariant after the operation."""
    from pysx.core import sx_and, sx_min
    from pysx import rope
    off, W, F = info['off'], info['W'], info['F']
    conds = [r.pos >= 0]
    if r.size is not None:
        conds.append(r.size == W)
        conds.append(r.pos <= r.size)
    conds.append(r.num_buffers == len(r.buffers))
    conds.append(r.num_buffers <= r.max_buffers)
    for k, b in r.buffers.items():
        conds.append(k % bs == 0)
        conds.append(b.pos == k)
        start = sx_min(off + k, F)
        end = sx_min(off + k + bs, F)
        data = b.data
        if isinstance(data, rope.Rope):
            conds.append(data.equals_slice(start, end))
            conds.append(b.size == end - start)
        else:
            conds.append(end - start == 0)
    sx.prove(sx_and(*conds), label,
             detail={'pos': r.pos, 'size': r.size, 'num_buffers': r.num_buffers, 'keys': sorted(r.buffers)})


def _len(x):
    from pysx.shadow import sx_len
    return sx_len(x)


def _is_slice(x, A, B_):
    """x (rope or empty bytes) is file[A:B_]; an empty *str* is not a slice of a binary file"""
    from pysx import rope
    if isinstance(x, rope.Rope):
        return x.equals_slice(A, B_)
    if isinstance(x, str):
        return False
    return (len(x) == 0) and (B_ - A == 0)


def _apply(sx, r, info, op, arg, bs, mb, tag=''):
    """Run one operation and state its post-conditions."""
    from pysx.core import sx_min, sx_max, sx_and, sx_ite, sx_implies
    from pysx import rope
    off, W = info['off'], info['W']
    pos0 = r.pos
    known0 = r.size is not None
    try:
        if op == 'read':
            res = r.read(arg)
        elif op == 'readall':
            res = r.readall()
        elif op == 'peek':
            res = r.peek(arg)
        elif op == 'seek0':
            res = r.seek(arg, 0)
        elif op == 'seek1':
            res = r.seek(arg, 1)
        elif op == 'seek2':
            res = r.seek(arg, 2)
        else:
            res = r.tell()
    except (AssertionError, Exception) as e:
        sx.fail('C20.exc', detail={'op': op, 'raised': type(e).__name__, 'msg': str(e)[:80]})
        return False
    sx.prove(True, 'C20.exc')
    rest = sx_max(0, W - pos0)
    # a position beyond the window is only possible while the size is unknown (lazy mode); an
    # operation that discovers the size may then clamp it
    from pysx.core import sx_or
    def pos_is(p):
        if known0:
            return r.pos == p
        return sx_or(r.pos == p, sx_and(pos0 > W, r.pos == W))
    if op in ('read', 'readall'):
        if op == 'readall':
            c = rest
            label = 'C20.readall'
        elif arg < 0:
            c = rest
            label = 'C20.readall'
        else:
            c = sx_min(arg, rest)
            label = 'C20.read'
        start = off + sx_min(pos0, W)
        ok = sx_and(_is_slice(res, start, start + c), pos_is(pos0 + c))
        sx.prove(ok, label, detail={'op': op, 'arg': arg, 'result': res, 'pos_after': r.pos, 'expected_count': c})
        sx.note('expect', {'result': res, 'pos': r.pos})
    elif op == 'peek':
        c = sx_min(arg, rest)
        start = off + sx_min(pos0, W)
        if isinstance(res, rope.Rope):
            ok = res.prefix_is_slice(start, c)
        else:
            ok = (c == 0) if not isinstance(res, str) else False
        ok = sx_and(ok, pos_is(pos0))
        sx.prove(ok, 'C20.peek', detail={'arg': arg, 'result': res, 'pos_after': r.pos, 'expected_prefix': c})
        sx.note('expect', {'result_prefix': res[:c] if isinstance(res, rope.Rope) else res, 'pos': r.pos})
    elif op.startswith('seek'):
        if op == 'seek0':
            target = arg
        elif op == 'seek1':
            target = pos0 + arg
        else:
            target = W + arg
        if known0 or op == 'seek2':
            want = sx_max(0, sx_min(target, W))
        else:
            want = sx_max(0, target)
        sx.prove(sx_and(res == want, r.pos == want), 'C20.seek',
                 detail={'op': op, 'arg': arg, 'result': res, 'pos_after': r.pos, 'want': want})
        sx.note('expect', {'result': res, 'pos': r.pos})
    else:
        sx.prove(sx_and(res == pos0, r.pos == pos0), 'C20.seek', detail={'op': 'tell', 'result': res})
        sx.note('expect', {'result': res, 'pos': r.pos})
    return True


def h_step(sx, bs, mb, explicit, op, tier):
    B = bounds(tier, explicit)
    r, info = _mk_state(sx, bs, mb, explicit, B)
    lo, hi = B['arg_range']
    arg = None
    if op == 'read':
        arg = sx.int('n', -1, hi)
    elif op == 'peek':
        arg = sx.int('n', 1, hi)
    elif op.startswith('seek'):
        arg = sx.int('t', lo, hi)
    sx.note('op', [op, arg])
    if _apply(sx, r, info, op, arg, bs, mb):
        _inv(sx, r, info, bs, mb)


def h_seq(sx, bs, mb, explicit, ops, tier):
    """Sequences from the constructor state (guards against an invariant that is too weak)."""
    from pysx import rope
    from pysx.core import ctx
    from dashlive.utils.buffered_reader import BufferedReader
    B = bounds(tier, explicit)
    off = sx.int('off', 0, B['offset_max'])
    W = sx.int('W', 0, B['window_size_max'])
    if explicit:
        extra = sx.int('extra', 0, B['file_extra_max'])
        F = off + W + extra
    else:
        F = off + W
    f = rope.SymFile(F, 0)
    cx = ctx()
    cx.env['time.time'] = lambda: cx.fresh_int('ts', 0, 1000)
    r = BufferedReader(f, buffersize=bs, offset=off, size=(W if explicit else None), max_buffers=mb)
    info = {'off': off, 'W': W, 'F': F, 'file': f}
    _inv(sx, r, info, bs, mb, 'C20.init')
    lo, hi = B['arg_range']
    trace = []
    for i, op in enumerate(ops):
        arg = None
        if op == 'read':
            arg = sx.int(f'n{i}', -1, hi)
        elif op == 'peek':
            arg = sx.int(f'n{i}', 1, hi)
        elif op.startswith('seek'):
            arg = sx.int(f't{i}', lo, hi)
        trace.append([op, arg])
        if not _apply(sx, r, info, op, arg, bs, mb):
            return
        _inv(sx, r, info, bs, mb)
    sx.note('ops', trace)


def h_data_ctor(sx, n):
    """BufferedReader(None, data=...) over an in-memory block."""
    from pysx import rope
    from pysx.core import ctx
    from dashlive.utils.buffered_reader import BufferedReader
    cx = ctx()
    cx.env['time.time'] = lambda: cx.fresh_int('ts', 0, 1000)
    L = sx.int('len', 0, n)
    data = rope.Rope([(0, L)])
    r = BufferedReader(None, data=data)
    info = {'off': 0, 'W': L, 'F': L}
    from pysx.core import sx_and
    sx.prove(sx_and(r.size == L, r.pos == 0, r.num_buffers == 1, r.num_buffers <= r.max_buffers), 'C20.init')
    k = sx.int('n', -1, n + 2)
    sx.assume(k != -1, 'data= constructor: readall has no underlying reader (reader=None)')
    _apply(sx, r, info, 'read', k, None, None)
    t = sx.int('t', -n - 2, n + 2)
    _apply(sx, r, info, 'seek2', t, None, None)


def instances(tier):
    B = bounds(tier)
    out = []
    for bs in B['buffersize']:
        for mb in B['max_buffers']:
            for explicit in (True, False):
                for op in OPS:
                    out.append({'name': f'step[bs={bs},mb={mb},{"win" if explicit else "lazy"},{op}]',
                                'fn': h_step, 'weight': 3 if op in ('read', 'peek') else 1,
                                'params': {'bs': bs, 'mb': mb, 'explicit': explicit, 'op': op, 'tier': tier},
                                'opts': {'max_paths': 60000, 'max_decisions': 600}})
    seqs = [('seek0', 'read'), ('read', 'read'), ('seek2', 'read'), ('read', 'readall'), ('seek0', 'readall'),
            ('peek', 'read'), ('seek1', 'peek'), ('read', 'seek1')]
    for bs in B['buffersize'][:2]:
        for explicit in (True, False):
            for ops in seqs:
                out.append({'name': f'seq[bs={bs},{"win" if explicit else "lazy"},{"+".join(ops)}]',
                            'fn': h_seq, 'weight': 2,
                            'params': {'bs': bs, 'mb': 2, 'explicit': explicit, 'ops': list(ops), 'tier': tier},
                            'opts': {'max_paths': 60000, 'max_decisions': 600}})
    out.append({'name': 'data_ctor', 'fn': h_data_ctor, 'params': {'n': 12}})
    return out


# ---------------------------------------------------------------------------
# concrete side

def _build_real(params, inputs, tier_bounds=None):
    import io
    from dashlive.utils.buffered_reader import BufferedReader, Buffer
    off, W = inputs.get('off', 0), inputs.get('W', 0)
    explicit = params.get('explicit', True)
    F = off + W + (inputs.get('extra', 0) if explicit else 0)
    content = bytes((i * 7 + 3) & 255 for i in range(F))
    f = io.BytesIO(content)
    return content, f, off, W, F


def _run_ops(r, ops):
    out = []
    for op, arg in ops:
        if op == 'read':
            res = r.read(arg)
        elif op == 'readall':
            res = r.readall()
        elif op == 'peek':
            res = r.peek(arg)
        elif op == 'seek0':
            res = r.seek(arg, 0)
        elif op == 'seek1':
            res = r.seek(arg, 1)
        elif op == 'seek2':
            res = r.seek(arg, 2)
        else:
            res = r.tell()
        out.append(res)
    return out


def _reference(content, off, W, pos, known, ops):
    """slice semantics: list of (result, pos_after) per op; mirrors the obligations."""
    win = content[off:off + W]
    out = []
    for op, arg in ops:
        rest = max(0, W - pos)
        if op in ('read', 'readall'):
            c = rest if (op == 'readall' or arg < 0) else min(arg, rest)
            s = min(pos, W)
            out.append(('data', win[s:s + c], pos + c))
            pos = pos + c
        elif op == 'peek':
            c = min(arg, rest)
            s = min(pos, W)
            out.append(('prefix', win[s:s + c], pos))
        elif op.startswith('seek'):
            target = arg if op == 'seek0' else (pos + arg if op == 'seek1' else W + arg)
            if known or op == 'seek2':
                pos = max(0, min(target, W))
            else:
                pos = max(0, target)
            if op == 'seek2':
                known = True
            out.append(('int', pos, pos))
        else:
            out.append(('int', pos, pos))
    return out


def _concrete_case(instance, params, inputs):
    """Build the real reader in the state described by inputs, run the op(s); returns
    (observed list, reference list)."""
    import io
    from dashlive.utils.buffered_reader import BufferedReader, Buffer
    if instance == 'data_ctor':
        L = inputs['len']
        content = bytes((i * 7 + 3) & 255 for i in range(L))
        r = BufferedReader(None, data=content)
        ops = [('read', inputs['n']), ('seek2', inputs['t'])]
        obs = []
        ref = _reference(content, 0, L, 0, True, ops)
        for (op, arg), rf in zip(ops, ref):
            res = _run_ops(r, [(op, arg)])[0]
            obs.append((res, r.pos))
        return obs, ref
    content, f, off, W, F = _build_real(params, inputs)
    explicit = params['explicit']
    bs, mb = params['bs'], params['mb']
    r = BufferedReader(f, buffersize=bs, offset=off, size=(W if explicit else None), max_buffers=mb)
    if instance.startswith('step['):
        known = explicit or bool(inputs.get('size_known'))
        if known:
            r.size = W
        r.pos = inputs['pos']
        f.seek(min(inputs.get('fpos', 0), F))
        n = 0
        for key, val in sorted(inputs.items()):
            if key.startswith('cached[') and val and n < mb:
                k = int(key[7:-1])
                b = Buffer(k, content[min(off + k, F):min(off + k + bs, F)])
                b.timestamp = inputs.get('ts!%d' % n, n)
                r.buffers[k] = b
                n += 1
        r.num_buffers = n
        op = params['op']
        arg = inputs.get('n') if op in ('read', 'peek') else inputs.get('t')
        ops = [(op, arg)]
        pos, kn = inputs['pos'], known
    else:
        ops = []
        for i, op in enumerate(params['ops']):
            arg = inputs.get(f'n{i}') if op in ('read', 'peek') else inputs.get(f't{i}')
            ops.append((op, arg))
        pos, kn = 0, explicit
    ref = _reference(content, off, W, pos, kn, ops)
    obs = []
    for (op, arg) in ops:
        res = _run_ops(r, [(op, arg)])[0]
        obs.append((res, r.pos))
    return obs, ref


def _b(x):
    if isinstance(x, str):
        return b''
    return bytes(x)


def replay(case):
    try:
        obs, ref = _concrete_case(case['instance'], case['params'], case['inputs'])
    except (AssertionError, Exception) as e:
        return {'violated': True, 'observed': {'raised': type(e).__name__, 'msg': str(e)[:200]}}
    bad = None
    for i, ((res, pos), (kind, want, wpos)) in enumerate(zip(obs, ref)):
        if kind in ('data', 'prefix') and isinstance(res, str):
            bad = {'step': i, 'got': repr(res), 'want': 'bytes ' + want.hex(), 'note': 'a str is not a slice of a binary file'}
            break
        if kind == 'data':
            if _b(res) != want or pos != wpos:
                bad = {'step': i, 'got': _b(res).hex(), 'want': want.hex(), 'pos': pos, 'want_pos': wpos}
                break
        elif kind == 'prefix':
            if _b(res)[:len(want)] != want or pos != wpos:
                bad = {'step': i, 'got': _b(res).hex(), 'want_prefix': want.hex(), 'pos': pos, 'want_pos': wpos}
                break
        else:
            if res != want or pos != wpos:
                bad = {'step': i, 'got': res, 'want': want, 'pos': pos, 'want_pos': wpos}
                break
    return {'violated': bad is not None, 'observed': bad or {'ok': True}}
