"""Shared harness helpers: layout catalogue, stand-in rows, option stand-ins, clock.

These helpers are used both in the symbolic process (instrumented dash-live modules,
imported lazily *after* pysx.loader.install()) and in the clean replay process (real
modules) - they only import dashlive inside functions.
"""
from __future__ import annotations

import datetime as _dt
import glob
import json
import os
import types

REPO = os.environ.get('DASHLIVE_REPO', '/repo')
FIX = os.path.join(REPO, 'tests', 'fixtures')


# ---------------------------------------------------------------------------
# layouts

def _synthetic_layouts():
    def rep(name, ts, durs, start_number=1, start_time=0, content_type='video', track_id=1):
        segs = [{'pos': 0, 'size': 100}]
        pos = 100
        for d in durs:
            segs.append({'pos': pos, 'size': 50, 'duration': d})
            pos += 50
        j = {'id': name, 'version': 4, 'timescale': ts, 'segments': segs, 'start_number': start_number,
             'start_time': start_time, 'content_type': content_type, 'track_id': track_id,
             'codecs': 'avc1.64001f', 'bitrate': 1000, 'mimeType': 'video/mp4'}
        md = sum(durs)
        j['mediaDuration'] = md
        # nominal duration: mean of all segments but the last
        j['segment_duration'] = (md - durs[-1]) // (len(durs) - 1)
        return j
    return {
        'syn_short_last': rep('syn_short_last', 1000, [4000, 4000, 4000, 4000, 1500]),
        'syn_long_first': rep('syn_long_first', 1000, [6000, 4000, 4000, 4000]),
        'syn_two': rep('syn_two', 90000, [360000, 180000]),
        'syn_sn0': rep('syn_sn0', 240, [960] * 5, start_number=0),
        'syn_sn7': rep('syn_sn7', 240, [960] * 5, start_number=7),
        'syn_st': rep('syn_st', 240, [960] * 5, start_time=4800),
        'syn_10mhz': rep('syn_10mhz', 10_000_000, [40_000_000] * 4),
        'syn_irregular': rep('syn_irregular', 1000, [4000, 3900, 4100, 4000, 3800, 4200]),
        'syn_1hz': rep('syn_1hz', 1, [4, 4, 4, 2]),
    }


_LAYOUTS = None


def layouts():
    """name -> representation JSON dict (fixtures + synthetic)."""
    global _LAYOUTS
    if _LAYOUTS is None:
        out = {}
        for f in sorted(glob.glob(os.path.join(FIX, '*', 'rep-*.json'))):
            name = os.path.basename(f)[4:-5]
            with open(f) as fh:
                out[name] = json.load(fh)
        out.update(_synthetic_layouts())
        _LAYOUTS = out
    return _LAYOUTS


STREAMS = {
    # stream name -> (reference layout, member layouts)
    'bbb': ('bbb_v7', ['bbb_v7', 'bbb_v6', 'bbb_a1', 'bbb_a2', 'bbb_t1']),
    'tears': ('tears_v1', ['tears_v1', 'tears_a1']),
}


def make_rep(name):
    """Representation(**json) built with the currently importable dashlive (instrumented or real)."""
    from dashlive.mpeg.dash.representation import Representation
    j = json.loads(json.dumps(layouts()[name]))
    return Representation(**j)


def make_ref(name):
    from dashlive.mpeg.dash.reference import StreamTimingReference
    j = layouts()[name]
    n = len(j['segments']) - 1
    md = j.get('mediaDuration')
    if md is None:
        md = sum(s['duration'] for s in j['segments'][1:])
    return StreamTimingReference(media_name=name, media_duration=md, num_media_segments=n,
                                 segment_duration=j['segment_duration'], timescale=j['timescale'])


def ref_tuple(name):
    j = layouts()[name]
    md = j.get('mediaDuration') or sum(s['duration'] for s in j['segments'][1:])
    return {'media_duration': md, 'segment_duration': j['segment_duration'],
            'num_media_segments': len(j['segments']) - 1, 'timescale': j['timescale']}


# ---------------------------------------------------------------------------
# options stand-in

class Opts(types.SimpleNamespace):
    """stand-in for OptionsContainer as read by DashTiming / Representation / handlers"""

    def update(self, **kw):
        self.__dict__.update(kw)


def live_opts(**kw):
    base = dict(mode='live', availabilityStartTime='epoch', timeShiftBufferDepth=60,
                minimumUpdatePeriod=None, leeway=None, segmentTimeline=False,
                videoErrors=[], audioErrors=[], textErrors=[], failureCount=None,
                videoCorruption=[], videoCorruptionFrameCount=None, bugCompatibility=[],
                encrypted=False, drmSelection=[], eventTypes=[], patch=False,
                utcMethod=None, updateCount=None, manifestErrors=[])
    base.update(kw)
    return Opts(**base)


# ---------------------------------------------------------------------------
# time helpers (plain Python)

UTC0 = _dt.timezone.utc
EPOCH = _dt.datetime(1970, 1, 1, tzinfo=UTC0)
US = 1_000_000


def real_utc():
    from dashlive.utils.timezone import UTC
    return UTC()


def dt_from_us(us_since_epoch):
    """aware real datetime (dashlive UTC tz) from integer microseconds since the Unix epoch."""
    return _dt.datetime(1970, 1, 1, tzinfo=real_utc()) + _dt.timedelta(microseconds=us_since_epoch)


def us_from_dt(d):
    delta = d - _dt.datetime(1970, 1, 1, tzinfo=UTC0)
    return (delta.days * 86400 + delta.seconds) * US + delta.microseconds


class FrozenClock:
    """Replaces datetime.datetime.now in a real (un-instrumented) module namespace."""

    def __init__(self, module, now):
        self.module = module
        self.now = now

    def __enter__(self):
        real = _dt.datetime
        now = self.now

        class _DT(real):
            @classmethod
            def now(cls, tz=None):
                return now if tz is None else now.astimezone(tz)
        self.saved = self.module.datetime
        fake = types.ModuleType('datetime')
        fake.__dict__.update(_dt.__dict__)
        fake.datetime = _DT
        self.module.datetime = fake
        return self

    def __exit__(self, *a):
        self.module.datetime = self.saved
        return False
