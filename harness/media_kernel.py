"""Driving the real media handler (MediaRequestBase.generate_media_segment /
generate_init_segment) without Flask, on fixture media, in both the symbolic process
(instrumented modules, proxies) and the replay process (real modules).

Stubs (all listed in evidence.assumptions): flask request/session/g stand-ins,
flask.make_response returns its argument, add_allowed_origins is a no-op, media-file and
stream rows are plain objects, the clock is supplied by the harness.
"""
from __future__ import annotations

import contextlib
import io as _io
import os
import types

from . import common

FIX = common.FIX

MEDIA = {
    # layout name -> (fixture file, content_type, codec fourcc)
    'bbb_v7': ('bbb/bbb_v7.mp4', 'video', 'avc3'),
    'bbb_v6': ('bbb/bbb_v6.mp4', 'video', 'avc1'),
    'bbb_a1': ('bbb/bbb_a1.mp4', 'audio', 'mp4a'),
    'bbb_a2': ('bbb/bbb_a2.mp4', 'audio', 'ec-3'),
    'bbb_t1': ('bbb/bbb_t1.mp4', 'text', 'stpp'),
    'bbb_v7_enc': ('bbb/bbb_v7_enc.mp4', 'video', 'avc3'),
    'bbb_a1_enc': ('bbb/bbb_a1_enc.mp4', 'audio', 'mp4a'),
    'tears_v1': ('tears/tears_v1.mp4', 'video', 'avc1'),
    'tears_a1': ('tears/tears_a1.mp4', 'audio', 'mp4a'),
}

STUBS = [
    'flask.request/session/g are plain stand-ins; flask.make_response returns its argument',
    'add_allowed_origins (CORS headers from the Flask app config) is a no-op',
    'MediaFile / Stream rows are plain objects exposing representation, content_type, track_id, name, codec_fourcc, open_file, timing_reference',
    'stored media: the fixture files under /repo/tests/fixtures with their rep-*.json indexes',
]


class MediaFileStandIn:
    def __init__(self, name, data=None, rep=None):
        path, ct, fourcc = MEDIA.get(name, (None, 'video', 'avc1'))
        self.name = name
        self.content_type = ct
        self.codec_fourcc = fourcc
        self.representation = rep if rep is not None else common.make_rep(name)
        self.track_id = self.representation.track_id
        self._path = os.path.join(FIX, path) if path else None
        self._data = data
        self.encrypted = self.representation.encrypted

    @contextlib.contextmanager
    def open_file(self, start=None, buffer_size=4096):
        if self._data is not None:
            f = _io.BytesIO(self._data)
        else:
            f = open(self._path, 'rb')
        try:
            if start is not None:
                f.seek(start)
            yield f
        finally:
            f.close()


class StreamStandIn:
    def __init__(self, ref_name, directory='bbb', title='stream'):
        self.timing_reference = common.make_ref(ref_name)
        self.directory = directory
        self.title = title
        self.defaults = None
        self.pk = 1


def real_options(mode, args=None, **overrides):
    """OptionsContainer exactly as RequestHandlerBase.calculate_options builds it."""
    from dashlive.server.requesthandler.base import RequestHandlerBase
    opts = RequestHandlerBase.calculate_options(None, mode, dict(args or {}), None)
    for k, v in overrides.items():
        opts.add_field(k, v)
    return opts


def patch_handler_module():
    """install the documented stubs into the handler module namespace (idempotent)."""
    import dashlive.server.requesthandler.media_requests as mr
    mr.add_allowed_origins = lambda headers, **kw: None
    return mr


def set_request(headers=None, args=None):
    """flask request stand-in for the current process (symbolic: pysx env; replay: context manager)."""
    from pysx import env
    env.flask_env.reset()
    env.flask_env.request.headers = dict(headers or {})
    env.flask_env.request.args = dict(args or {})


def run_segment_symbolic(media_name, ref_name, now, options, seg_num, seg_time, mode='live',
                         headers=None, media=None):
    """call the real generate_media_segment (instrumented) under the given clock."""
    from pysx.core import ctx
    mr = patch_handler_module()
    set_request(headers=headers)
    ctx().env['now'] = lambda tz=None: now
    mf = media if media is not None else MediaFileStandIn(media_name)
    stream = StreamStandIn(ref_name)
    handler = mr.LiveMedia()
    return handler.generate_media_segment(stream, mf, mode, options, seg_num, seg_time)


@contextlib.contextmanager
def real_request(now, headers=None):
    """replay side: a Flask app/request context plus a frozen clock for the handler module."""
    import flask
    import dashlive.server.requesthandler.media_requests as mr
    app = flask.Flask('vf-replay')
    app.config['DASH'] = {'ALLOWED_DOMAINS': '*'}
    app.secret_key = 'x'
    saved = mr.add_allowed_origins
    mr.add_allowed_origins = lambda h, **kw: None
    with app.test_request_context('/', headers=headers or {}):
        with common.FrozenClock(mr, now):
            try:
                yield mr
            finally:
                mr.add_allowed_origins = saved


def run_segment_real(media_name, ref_name, now, options, seg_num, seg_time, mode='live', headers=None,
                     media=None):
    with real_request(now, headers) as mr:
        mf = media if media is not None else MediaFileStandIn(media_name)
        stream = StreamStandIn(ref_name)
        resp = mr.LiveMedia().generate_media_segment(stream, mf, mode, options, seg_num, seg_time)
        body = resp.get_data()
        return body, resp.status_code, dict(resp.headers)


# ---------------------------------------------------------------------------
# independent ISO-BMFF walker (does not use dashlive.mpeg.mp4)

# boxes the library itself models as plain containers (other boxes are opaque payloads)
CONTAINERS = {'moov', 'trak', 'mdia', 'minf', 'stbl', 'mvex', 'moof', 'traf', 'sinf', 'schi', 'udta'}


class Box:
    __slots__ = ('type', 'start', 'size', 'hdr', 'children', 'data')

    def __init__(self, type_, start, size, hdr, data):
        self.type = type_
        self.start = start
        self.size = size
        self.hdr = hdr
        self.children = []
        self.data = data

    @property
    def end(self):
        return self.start + self.size

    @property
    def payload(self):
        return self.data[self.start + self.hdr:self.end]

    def find(self, path):
        cur = self
        for name in path.split('.'):
            nxt = None
            for c in cur.children:
                if c.type == name:
                    nxt = c
                    break
            if nxt is None:
                return None
            cur = nxt
        return cur

    def find_all(self, name):
        return [c for c in self.children if c.type == name]


def _u(data, pos, n):
    """big-endian unsigned of n bytes at pos: int, or a SymInt when bytes are symbolic"""
    piece = data[pos:pos + n]
    if isinstance(piece, (bytes, bytearray)):
        if len(piece) != n:
            raise ValueError('truncated')
        return int.from_bytes(piece, 'big')
    from pysx import bytes_
    if len(piece) != n:
        raise ValueError('truncated')
    return bytes_.bytes_to_int(piece, 'big', False)


def _concrete_int(v, what):
    if isinstance(v, int):
        return v
    # structure must be concrete per path: a symbolic size/count is concretised by a bounded
    # solver fork (in the discovery pass this marks the bytes as structural)
    return v.concrete(what)


def walk(data, start=0, end=None, depth=0):
    """-> list of Box; raises ValueError when sizes do not tile [start, end) exactly."""
    if end is None:
        end = len(data)
    out = []
    pos = start
    while pos < end:
        if end - pos < 8:
            raise ValueError(f'trailing {end - pos} bytes at {pos}')
        size = _concrete_int(_u(data, pos, 4), 'box size')
        t = data[pos + 4:pos + 8]
        if not isinstance(t, (bytes, bytearray)):
            t = t.concrete()
        btype = bytes(t).decode('latin-1')
        hdr = 8
        if size == 1:
            size = _concrete_int(_u(data, pos + 8, 8), 'box largesize')
            hdr = 16
        elif size == 0:
            size = end - pos
        if btype == 'uuid':
            hdr += 16
        if size < hdr or pos + size > end:
            raise ValueError(f'box {btype!r} at {pos} has size {size} but parent ends at {end}')
        b = Box(btype, pos, size, hdr, data)
        if btype in CONTAINERS:
            b.children = walk(data, pos + hdr, pos + size, depth + 1)
        out.append(b)
        pos += size
    if pos != end:
        raise ValueError('children do not tile their parent')
    return out


class Root(Box):
    def __init__(self, data):
        super().__init__('root', 0, len(data), 0, data)
        self.children = walk(data)


def fullbox(b):
    """(version, flags, offset of the first field after version/flags)"""
    p = b.start + b.hdr
    v = _u(b.data, p, 1)
    f = _u(b.data, p + 1, 3)
    return v, f, p + 4


def read_tfdt(b):
    v, f, p = fullbox(b)
    v = _concrete_int(v, 'tfdt version')
    if v == 1:
        return v, _u(b.data, p, 8)
    return v, _u(b.data, p, 4)


def read_mfhd(b):
    v, f, p = fullbox(b)
    return _u(b.data, p, 4)


def read_tfhd(b):
    v, f, p = fullbox(b)
    f = _concrete_int(f, 'tfhd flags')
    out = {'flags': f, 'track_id': _u(b.data, p, 4)}
    p += 4
    for bit, name, n in ((0x1, 'base_data_offset', 8), (0x2, 'sample_description_index', 4),
                         (0x8, 'default_sample_duration', 4), (0x10, 'default_sample_size', 4),
                         (0x20, 'default_sample_flags', 4)):
        if f & bit:
            out[name] = _u(b.data, p, n)
            p += n
    return out


def read_trun(b):
    v, f, p = fullbox(b)
    f = _concrete_int(f, 'trun flags')
    count = _concrete_int(_u(b.data, p, 4), 'trun sample_count')
    p += 4
    out = {'flags': f, 'sample_count': count, 'samples': []}
    if f & 0x1:
        x = _u(b.data, p, 4)
        if isinstance(x, int) and x >= 1 << 31:
            x -= 1 << 32
        out['data_offset'] = x
        p += 4
    if f & 0x4:
        out['first_sample_flags'] = _u(b.data, p, 4)
        p += 4
    for _ in range(count):
        s = {}
        for bit, name in ((0x100, 'duration'), (0x200, 'size'), (0x400, 'flags'), (0x800, 'cto')):
            if f & bit:
                s[name] = _u(b.data, p, 4)
                p += 4
        out['samples'].append(s)
    out['end'] = p
    return out


def read_saio(b):
    v, f, p = fullbox(b)
    v = _concrete_int(v, 'saio version')
    f = _concrete_int(f, 'saio flags')
    if f & 1:
        p += 8
    count = _concrete_int(_u(b.data, p, 4), 'saio entry_count')
    p += 4
    n = 8 if v == 1 else 4
    return [_u(b.data, p + i * n, n) for i in range(count)]


def read_senc(b, iv_size):
    """-> dict(sample_count, first_entry_pos, entries=[(iv_pos, subsample_count)])"""
    v, f, p = fullbox(b)
    f = _concrete_int(f, 'senc flags')
    if b.type == 'uuid' and (f & 1):
        p += 20
    count = _concrete_int(_u(b.data, p, 4), 'senc sample_count')
    p += 4
    first = p
    for _ in range(count):
        p += iv_size
        if f & 2:
            n = _concrete_int(_u(b.data, p, 2), 'subsample count')
            p += 2 + 6 * n
    return {'sample_count': count, 'first_entry_pos': first, 'end': p, 'flags': f}
