"""Concrete structure, symbolic content: helpers for the ISO-BMFF properties (C04, C03, C10).

``discover_structural`` runs the given operations once with *every* byte symbolic but pinned to
the fixture's value and records which bytes influence control flow (branch decisions, indices,
read sizes, hashes).  Those bytes are the structure (sizes, types, versions, flags, counts,
strings scanned for a terminator ...) and stay concrete; every other byte is content and becomes
a free solver variable in the actual run.
"""
from __future__ import annotations

import os

import z3

from . import common

FIX = common.FIX


def fixture_bytes(name, limit=None):
    with open(os.path.join(FIX, name), 'rb') as f:
        data = f.read()
    if isinstance(limit, str) and limit.startswith('segment:'):
        # one stored media segment, located through the fixture's representation index
        import json
        k = int(limit.split(':')[1])
        base = os.path.basename(name)[:-4]
        with open(os.path.join(FIX, os.path.dirname(name), f'rep-{base}.json')) as f:
            seg = json.load(f)['segments'][k]
        return data[seg['pos']:seg['pos'] + seg['size']]
    return data if limit is None else data[:limit]


_DISCOVER_CACHE = {}


class VarCollector:
    """variables of z3 terms by AST id (z3util.get_vars compares printed terms and is far too slow)"""

    def __init__(self, names):
        self.names = names
        self.seen = set()
        self.found = set()

    def add(self, term):
        stack = [term]
        # per-call visited set: AST ids can be reused once a term is garbage collected
        seen, names, found = set(), self.names, self.found
        while stack:
            t = stack.pop()
            i = t.get_id()
            if i in seen:
                continue
            seen.add(i)
            n = t.num_args()
            if n == 0:
                k = names.get(i)
                if k is not None:
                    found.add(k)
            else:
                for j in range(n):
                    stack.append(t.arg(j))


def discover_structural(key, data, ops, skip_ranges=()):
    """-> sorted list of structural byte indices of data for the operation ops(symbytes)."""
    hit = _DISCOVER_CACHE.get(key)
    if hit is not None:
        return hit
    from pysx import core
    from pysx.bytes_ import SymBytes
    outer = core._CTX
    cx = core.Ctx([], query_timeout_ms=20000, max_decisions=10 ** 7, fork_limit=1 << 30)
    core.set_ctx(cx)
    try:
        items = []
        names = {}
        for i, b in enumerate(data):
            if any(lo <= i < hi for lo, hi in skip_ranges):
                items.append(b)
                continue
            v = z3.Int(f'd{i}')
            names[v.get_id()] = i
            cx.solver.add(v == b)
            items.append(core.SymInt(v, 0, 255))
        coll = VarCollector(names)
        structural = coll.found
        note = coll.add

        def decide(cond):
            if not isinstance(cond, bool):
                c = z3.simplify(cond)
                if not z3.is_true(c) and not z3.is_false(c):
                    note(c)
                    # pinned: evaluate directly under the unique model
                    if cx.model is None:
                        cx._check()
                    val = z3.is_true(cx.model.eval(c, model_completion=True))
                    return val
                return z3.is_true(c)
            return cond

        def concretize(term, lo=None, hi=None, what='value'):
            t = z3.simplify(term)
            if z3.is_int_value(t):
                return t.as_long()
            note(t)
            if cx.model is None:
                cx._check()
            return cx.model.eval(t, model_completion=True).as_long()

        cx.decide = decide
        cx.concretize = concretize
        cx._check()
        try:
            result = ops(SymBytes(items=items))
        except Exception:
            # the operation itself fails on the fixture values: the real run reports it
            result = None
        # "live" bytes: those that flow into a field of the parsed tree.  Bytes that are neither
        # structural nor live are skipped/reserved by the parser; well-formed input has the
        # specified value there, so they stay concrete as well.
        live = None
        if result is not None:
            def scan(v, depth=0):
                if depth > 60:
                    return
                if isinstance(v, core.SymInt):
                    note_live(v.t)
                elif isinstance(v, core.SymBool):
                    note_live(v.t)
                elif isinstance(v, SymBytes):
                    for x in v.sym.values():
                        note_live(x.t)
                elif isinstance(v, dict):
                    for x in v.values():
                        scan(x, depth + 1)
                elif isinstance(v, (list, tuple)):
                    for x in v:
                        scan(x, depth + 1)
                elif hasattr(v, 'cps'):
                    for x in v.cps:
                        scan(x, depth + 1)

            live_coll = VarCollector(names)
            live = live_coll.found

            def note_live(term):
                live_coll.add(term)
            scan(result)
    finally:
        core.set_ctx(outer)
    res = sorted(structural)
    if live is not None:
        dead = [i for i in range(len(data)) if i not in structural and i not in live]
        res = sorted(set(res) | set(dead))
    _DISCOVER_CACHE[key] = res
    return res


def symbolise(sx, data, structural, prefix='b', max_symbolic=None, skip_ranges=()):
    """SymBytes with every non-structural byte a fresh solver variable (named prefix[i])."""
    from pysx.bytes_ import SymBytes
    st = set(structural)
    sym = {}
    count = 0
    for i in range(len(data)):
        if i in st:
            continue
        if any(a <= i < b for a, b in skip_ranges):
            continue
        if max_symbolic is not None and count >= max_symbolic:
            break
        sym[i] = sx.int(f'{prefix}[{i}]', 0, 255)
        count += 1
    return SymBytes.make(data, sym), sorted(sym)


def bytes_equal(a, b):
    """SymBool/bool: two byte strings (bytes or SymBytes) are equal"""
    from pysx.bytes_ import SymBytes
    if isinstance(a, (bytes, bytearray)) and isinstance(b, (bytes, bytearray)):
        return bytes(a) == bytes(b)
    if isinstance(a, (bytes, bytearray)):
        a, b = b, a
    return a == b


def first_difference(a, b, m=None):
    """index of the first differing byte under model m (for counterexample details)"""
    from pysx.explore import eval_under
    if len(a) != len(b):
        return {'len_a': len(a), 'len_b': len(b)}
    return None


def atom_fields(atom, depth=0):
    """nested plain structure of an atom's parsed fields (for eager/lazy comparison)"""
    out = {'type': atom.atom_type}
    skip = {'parent', 'options', '_children', 'children', '_encoded', '_buffer', 'position', 'size',
            'header_size', 'payload_start'}
    for name in sorted(atom._fields):
        if name in skip or name.startswith('_'):
            continue
        out[name] = _plain(getattr(atom, name))
    kids = atom.children
    if kids:
        out['children'] = [atom_fields(c, depth + 1) for c in kids]
    return out


def _plain(v):
    from pysx.bytes_ import SymBytes
    if v is None or isinstance(v, (bool, int, str, float, bytes, SymBytes)) or hasattr(v, '__sx_sym__'):
        return v
    if isinstance(v, (list, tuple)):
        return [_plain(x) for x in v]
    if isinstance(v, dict):
        return {k: _plain(x) for k, x in v.items()}
    if hasattr(v, 'data') and type(v).__name__ in ('Binary', 'HexBinary'):
        return ('binary', v.data)
    f = getattr(v, '_fields', None)
    if f is not None:
        return {k: _plain(getattr(v, k)) for k in sorted(f) if k not in ('parent', 'options') and not k.startswith('_')}
    return repr(v)


def deep_equal(a, b, path=''):
    """-> (SymBool/bool, first structural mismatch path or None)"""
    from pysx.core import sx_and, SymInt, SymBool
    from pysx.bytes_ import SymBytes
    conds = []

    def rec(x, y, p):
        if isinstance(x, dict) and isinstance(y, dict):
            if set(x) != set(y):
                return f'{p}: keys {sorted(set(x) ^ set(y))}'
            for k in x:
                r = rec(x[k], y[k], f'{p}.{k}')
                if r:
                    return r
            return None
        if isinstance(x, (list, tuple)) and isinstance(y, (list, tuple)):
            if len(x) != len(y):
                return f'{p}: lengths {len(x)} != {len(y)}'
            for i, (u, v) in enumerate(zip(x, y)):
                r = rec(u, v, f'{p}[{i}]')
                if r:
                    return r
            return None
        if isinstance(x, (SymBytes, bytes, bytearray)) or isinstance(y, (SymBytes, bytes, bytearray)):
            if not isinstance(x, (SymBytes, bytes, bytearray)) or not isinstance(y, (SymBytes, bytes, bytearray)):
                return f'{p}: type mismatch'
            if len(x) != len(y):
                return f'{p}: byte lengths {len(x)} != {len(y)}'
            conds.append(bytes_equal(x, y))
            return None
        e = (x == y)
        if isinstance(e, bool):
            if not e:
                return f'{p}: {x!r} != {y!r}'
            return None
        conds.append(e)
        return None
    mismatch = rec(a, b, path)
    if mismatch:
        return False, mismatch
    return sx_and(*conds), None


# ---------------------------------------------------------------------------
# field-space symbolisation (C04.f2b2f): every integer / binary field of a parsed tree is a slot

SKIP_FIELDS = {'parent', 'options', '_children', 'children', '_encoded', '_buffer', 'position', 'size',
               'header_size', 'payload_start', 'atom_type', 'index', 'offset'}


class Slot:
    __slots__ = ('idx', 'path', 'kind', 'value', 'obj', 'key')

    def __init__(self, idx, path, kind, value, obj, key):
        self.idx = idx
        self.path = path
        self.kind = kind          # 'int' | 'bytes'
        self.value = value
        self.obj = obj
        self.key = key            # ('attr', name) | ('item', i) | ('data',)

    def set(self, v):
        k = self.key
        if k[0] == 'attr':
            object.__setattr__(self.obj, k[1], v)
        elif k[0] == 'item':
            self.obj[k[1]] = v
        else:
            self.obj.data = v

    def get(self):
        k = self.key
        if k[0] == 'attr':
            return getattr(self.obj, k[1])
        if k[0] == 'item':
            return self.obj[k[1]]
        return self.obj.data


def enumerate_slots(tree):
    """deterministic list of Slot for every int / bytes field below tree (children first order)"""
    slots = []

    def is_owf(v):
        return hasattr(v, '_fields') and hasattr(v, 'OBJECT_FIELDS')

    def visit_value(obj, key, v, path):
        if isinstance(v, bool) or v is None:
            return
        if isinstance(v, int):
            slots.append(Slot(len(slots), path, 'int', v, obj, key))
        elif isinstance(v, (bytes, bytearray)):
            if len(v) > 0:
                slots.append(Slot(len(slots), path, 'bytes', bytes(v), obj, key))
        elif type(v).__name__ in ('Binary', 'HexBinary'):
            if isinstance(v.data, (bytes, bytearray)) and len(v.data) > 0:
                slots.append(Slot(len(slots), path + '.data', 'bytes', bytes(v.data), v, ('data',)))
        elif isinstance(v, list):
            for i, x in enumerate(v):
                if is_owf(x):
                    visit_obj(x, f'{path}[{i}]')
                else:
                    visit_value(v, ('item', i), x, f'{path}[{i}]')
        elif is_owf(v):
            visit_obj(v, path)

    def visit_obj(o, path):
        for name in sorted(o._fields):
            if name in SKIP_FIELDS or name.startswith('_'):
                continue
            try:
                v = object.__getattribute__(o, name)
            except AttributeError:
                continue
            visit_value(o, ('attr', name), v, f'{path}.{name}')
        kids = getattr(o, '_children', None)
        if kids:
            for i, c in enumerate(kids):
                t = getattr(c, 'atom_type', '?')
                visit_obj(c, f'{path}/{t}#{i}')
    visit_obj(tree, '')
    return slots


def slot_value_in(tree, slot):
    """value at the same path in another (re-parsed) tree, or KeyError"""
    want = slot.path
    for s in enumerate_slots(tree):
        if s.path == want:
            return s.get()
    raise KeyError(want)


_SLOT_CACHE = {}


def discover_slots(key, make_tree, ops):
    """-> (structural slot idx set, dead slot idx set).  make_tree() builds a fresh concrete tree,
    ops(tree) runs the operations and returns the encoded bytes (scanned for live slots)."""
    hit = _SLOT_CACHE.get(key)
    if hit is not None:
        return hit
    from pysx import core
    from pysx.bytes_ import SymBytes
    outer = core._CTX
    cx = core.Ctx([], query_timeout_ms=20000, max_decisions=10 ** 7, fork_limit=1 << 30)
    core.set_ctx(cx)
    try:
        tree = make_tree()
        slots = enumerate_slots(tree)
        names = {}
        for s in slots:
            if s.kind == 'int':
                if s.value < 0:
                    continue
                v = z3.Int(f's{s.idx}')
                names[v.get_id()] = s.idx
                cx.solver.add(v == s.value)
                s.set(core.SymInt(v, 0, 2 ** 64 - 1))
            else:
                items = []
                for k, b in enumerate(s.value):
                    v = z3.Int(f's{s.idx}.{k}')
                    names[v.get_id()] = s.idx
                    cx.solver.add(v == b)
                    items.append(core.SymInt(v, 0, 255))
                s.set(SymBytes(items=items))
        colls = {}

        def note(term, into):
            c = colls.get(id(into))
            if c is None:
                c = colls[id(into)] = VarCollector(names)
                c.found = into
            c.add(term)
        structural = set()

        def decide(cond):
            if isinstance(cond, bool):
                return cond
            c = z3.simplify(cond)
            if z3.is_true(c) or z3.is_false(c):
                return z3.is_true(c)
            if not cx.env.get('range_check'):
                note(c, structural)
            if cx.model is None:
                cx._check()
            return z3.is_true(cx.model.eval(c, model_completion=True))

        def concretize(term, lo=None, hi=None, what='value'):
            t = z3.simplify(term)
            if z3.is_int_value(t):
                return t.as_long()
            note(t, structural)
            if cx.model is None:
                cx._check()
            return cx.model.eval(t, model_completion=True).as_long()
        cx.decide = decide
        cx.concretize = concretize
        cx._check()
        # value-range tests of the encoder (x < 2**32 ...) are decisions too, but they do not make a
        # field structural: they are recorded separately
        live = set()
        cx.env['use_hook'] = lambda x: note(core.term_of(x), live)
        out = ops(tree)
        if isinstance(out, SymBytes):
            for x in out.sym.values():
                note(x.t, live)
    finally:
        core.set_ctx(outer)
    dead = {s.idx for s in slots if s.idx not in live}
    res = (structural, dead)
    _SLOT_CACHE[key] = res
    return res
