"""Shared manifest-side / media-side drivers for the timing properties (C01, C02, C06, C09).

All functions work both on proxies (symbolic process) and on plain values (replay process):
they only call the real dash-live entry points.
"""
from __future__ import annotations

import datetime as _dt

from . import common

AST0 = (2024, 1, 1)           # explicit availabilityStartTime used as the anchor of clock windows
US = 1_000_000

BASES = {
    # elapsed time at the start of the clock window, seconds
    '65s': 65,
    '10min': 600,
    '1h': 3600,
    '1d-20s': 86400 - 20,
    '30d': 30 * 86400,
    '1y': 365 * 86400,
    '54y': 54 * 365 * 86400 + 13 * 86400,
}


def base_seconds(base, rep_name=None):
    """elapsed seconds at the start of the clock window; 'x32' is the instant at which the
    representation's decode time crosses 2**32 ticks (tfdt grows from 32 to 64 bits)."""
    if base == 'x32':
        ts = common.layouts()[rep_name]['timescale']
        return max(65, (1 << 32) // ts - 45)
    return BASES[base]


def ast_real():
    from dashlive.utils.timezone import UTC
    return _dt.datetime(*AST0, tzinfo=UTC())


def now_from_elapsed_us(elapsed_us):
    """aware datetime AST0 + elapsed (elapsed int or SymInt microseconds)."""
    ast = ast_real()
    if isinstance(elapsed_us, int):
        return ast + _dt.timedelta(microseconds=elapsed_us)
    from pysx import dt
    return dt.SymDatetime(dt.real_wall(ast) + elapsed_us, ast.tzinfo)


def manifest_timing(now, ref_name, depth, leeway=None, mup=None, start=None):
    from dashlive.mpeg.dash.timing import DashTiming
    opts = common.live_opts(availabilityStartTime=(start if start is not None else ast_real()),
                            timeShiftBufferDepth=depth, minimumUpdatePeriod=mup, leeway=leeway)
    return DashTiming(now, common.make_ref(ref_name), opts), opts


def media_timing(now, ref_name, mtiming, leeway):
    """DashTiming as the media endpoint rebuilds it from the values the manifest writes into the
    media URL (start = resolved AST, depth = clamped depth, leeway) - ManifestContext.create_period."""
    from dashlive.mpeg.dash.timing import DashTiming
    opts = common.live_opts(availabilityStartTime=mtiming.availabilityStartTime,
                            timeShiftBufferDepth=mtiming.timeShiftBufferDepth,
                            minimumUpdatePeriod=None, leeway=leeway)
    return DashTiming(now, common.make_ref(ref_name), opts), opts


def expand_timeline(elements):
    """list of SegmentTimelineElement -> list of (t, d, mod_segment) as a DASH client expands
    S@t / S@d / S@r exactly as templates/segment/timeline.xml prints them."""
    out = []
    t = None
    for el in elements:
        if el.start is not None:
            t = el.start
        mod = el.mod_segment
        for _ in range(el.count):
            out.append((t, el.duration, mod))
            t = t + el.duration
            mod = mod + 1
    return out


def media_index(rep, timing, seg_num, seg_time, mode='live'):
    """LiveMedia.calculate_media_segment_index (it uses no request state)."""
    from dashlive.server.requesthandler.media_requests import LiveMedia
    return LiveMedia.calculate_media_segment_index(None, mode, rep, timing, seg_num, seg_time)
