"""pysx - a small symbolic executor for real Python code by proxy values and re-execution."""
