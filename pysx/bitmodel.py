"""bitstring stand-in (subset used by BitsFieldReader / BitsFieldWriter / FieldWriter.writebits
and a few mp4 boxes) over chunks of (value, width), plus crccheck.crc.Crc32Mpeg2 as an
uninterpreted function of the byte-term sequence with the zero-residue axiom.

For concrete values the real libraries are used directly; the symbolic representation is only
entered when a symbolic value is appended / a SymBytes buffer is read.
"""
from __future__ import annotations

import bitstring as _bs
import z3

from . import core, bytes_
from .core import SymInt, SymBool, Unsupported, ctx, sx_divmod
from .bytes_ import SymBytes
from .env import EnvModule


def _is_sym(v):
    return isinstance(v, (SymInt, SymBool))


class SxBits:
    """immutable-ish sequence of bits as chunks [(value int|SymInt, width)], MSB first"""
    __sx_sym__ = True

    def __init__(self, chunks=None):
        self.chunks = list(chunks or [])

    # -- construction helpers
    @staticmethod
    def from_real(b):
        n = b.len
        if n == 0:
            return SxBits([])
        return SxBits([(b.uint, n)])

    @staticmethod
    def from_bytes(data):
        if isinstance(data, SymBytes):
            return SxBits([(v, 8) for v in data.items()])
        return SxBits([(v, 8) for v in bytes(data)])

    @property
    def len(self):
        return sum(w for _, w in self.chunks)

    length = len

    def __len__(self):
        return self.len

    def append(self, other):
        self.chunks.extend(as_sx(other).chunks)

    def prepend(self, other):
        self.chunks = as_sx(other).chunks + self.chunks

    def __add__(self, other):
        return type(self)(self.chunks + as_sx(other).chunks)

    def _split_at(self, pos):
        """ensure a chunk boundary at bit position pos; returns chunk index starting at pos"""
        acc = 0
        for i, (v, w) in enumerate(self.chunks):
            if acc == pos:
                return i
            if acc < pos < acc + w:
                k = acc + w - pos        # low bits that go to the right part
                hi, lo = sx_divmod(v, 1 << k) if not isinstance(v, int) else divmod(v, 1 << k)
                if isinstance(hi, SymInt):
                    hi = core.refine(hi, 0, (1 << (w - k)) - 1)
                self.chunks[i:i + 1] = [(hi, w - k), (lo, k)]
                return i + 1
            acc += w
        if acc == pos:
            return len(self.chunks)
        raise IndexError('bit position beyond the end')

    def slice(self, start, end):
        i = self._split_at(start)
        j = self._split_at(end)
        return SxBits(self.chunks[i:j])

    def uint(self):
        v = 0
        for (x, w) in self.chunks:
            if isinstance(x, SymBool):
                x = x._as_int()
            v = v * (1 << w) + x
        return v

    def overwrite(self, other, pos=None):
        o = as_sx(other)
        if pos is None:
            raise Unsupported('overwrite without position')
        i = self._split_at(pos)
        j = self._split_at(pos + o.len)
        self.chunks[i:j] = o.chunks

    @property
    def bytes(self):
        n = self.len
        if n % 8:
            raise _bs.InterpretError('Cannot interpret as bytes unambiguously - not multiple of 8 bits.')
        out = []
        for k in range(0, n, 8):
            out.append(self.slice(k, k + 8).uint())
        if any(isinstance(v, SymInt) for v in out):
            return SymBytes(items=out)
        return bytes(out)

    def tobytes(self):
        pad = (-self.len) % 8
        if pad:
            return (self + SxBits([(0, pad)])).bytes
        return self.bytes

    def concrete(self):
        n = self.len
        v = self.uint()
        if isinstance(v, SymInt):
            v = v.concrete('bit string')
        return _bs.Bits(uint=v, length=n) if n else _bs.Bits()


def as_sx(b):
    if isinstance(b, SxBits):
        return b
    if isinstance(b, (_bs.Bits,)):
        return SxBits.from_real(b)
    if isinstance(b, (bytes, bytearray, SymBytes)):
        return SxBits.from_bytes(b)
    raise Unsupported(f'cannot convert {type(b).__name__} to bits')


def _check_uint(value, length):
    """bitstring.CreationError when value does not fit (decided by the solver for symbolic values)"""
    if isinstance(value, SymBool):
        value = value._as_int()
    core.note_use(value)
    with core.range_check():
        neg = bool(value < 0)
        big = (not neg) and not (value < (1 << length))
    if neg:
        raise _bs.CreationError(f'uint cannot be initialised with a negative number')
    if big:
        raise _bs.CreationError(f'{value} is too large an unsigned integer for a bitstring of length {length}')
    return core.refine(value, 0, (1 << length) - 1)


def Bits(auto=None, length=None, offset=None, **kw):
    sym = any(_is_sym(v) or isinstance(v, SymBytes) for v in kw.values()) or _is_sym(length)
    if not sym and not isinstance(auto, (SxBits, SymBytes)):
        return _bs.Bits(auto, length, offset, **kw) if auto is not None or length is not None or offset is not None \
            else _bs.Bits(**kw)
    if 'uint' in kw:
        if length is None:
            raise _bs.CreationError('length required')
        return SxBits([(_check_uint(kw['uint'], length), length)])
    if 'bytes' in kw:
        sb = SxBits.from_bytes(kw['bytes'])
        if length is not None:
            return sb.slice(0, length)
        return sb
    if 'bool' in kw:
        return SxBits([(kw['bool']._as_int() if isinstance(kw['bool'], SymBool) else int(kw['bool']), 1)])
    raise Unsupported(f'Bits({sorted(kw)}) with symbolic values')


class BitArray:
    """mutable bit container: real bitstring.BitArray until something symbolic is appended"""
    __sx_sym__ = True

    def __init__(self, auto=None, **kw):
        if isinstance(auto, (SxBits, SymBytes)) or any(_is_sym(v) or isinstance(v, SymBytes) for v in kw.values()):
            self._real = None
            self._sx = as_sx(auto) if auto is not None else as_sx(Bits(**kw))
        else:
            self._real = _bs.BitArray(auto, **kw) if (auto is not None or kw) else _bs.BitArray()
            self._sx = None

    def _to_sx(self):
        if self._sx is None:
            self._sx = SxBits.from_real(self._real)
            self._real = None

    def append(self, other):
        if isinstance(other, BitArray):
            other = other._sx if other._sx is not None else other._real
        if self._sx is None and not isinstance(other, (SxBits, SymBytes)):
            self._real.append(other)
            return
        self._to_sx()
        self._sx.append(other)

    def overwrite(self, other, pos=None):
        if isinstance(other, BitArray):
            other = other._sx if other._sx is not None else other._real
        if self._sx is None and not isinstance(other, SxBits):
            self._real.overwrite(other, pos)
            return
        self._to_sx()
        self._sx.overwrite(other, pos)

    @property
    def len(self):
        return self._real.len if self._sx is None else self._sx.len

    length = len

    def __len__(self):
        return self.len

    @property
    def bytes(self):
        return self._real.bytes if self._sx is None else self._sx.bytes

    def tobytes(self):
        return self._real.tobytes() if self._sx is None else self._sx.tobytes()

    @property
    def uint(self):
        return self._real.uint if self._sx is None else self._sx.uint()

    def __getattr__(self, name):
        if name in ('_real', '_sx'):
            raise AttributeError(name)
        if self._sx is None:
            return getattr(self._real, name)
        raise Unsupported(f'BitArray.{name} on symbolic bits')

    def __eq__(self, other):
        if isinstance(other, BitArray):
            other = other._real if other._sx is None else other._sx
        if self._sx is None and not isinstance(other, SxBits):
            return self._real == other
        raise Unsupported('comparison of symbolic bit arrays')

    def __hash__(self):
        return id(self)


class ConstBitStream:
    __sx_sym__ = True

    def __init__(self, auto=None, **kw):
        data = kw.get('bytes')
        if isinstance(data, SymBytes) or isinstance(auto, (SxBits, SymBytes)):
            self._real = None
            self._sx = as_sx(data if data is not None else auto)
            self._pos = 0
        else:
            self._real = _bs.ConstBitStream(auto, **kw) if auto is not None else _bs.ConstBitStream(**kw)
            self._sx = None

    def read(self, fmt):
        if self._sx is None:
            from . import text
            if isinstance(fmt, str) and text.has_token(fmt):
                kind, _, num = fmt.partition(':')
                n = text.parse_int(num)
                if isinstance(n, SymInt):
                    n = n.concrete('bit field width')
                fmt = f'{kind}:{n}'
            return self._real.read(fmt)
        if isinstance(fmt, int):
            kind, n = 'bits', fmt
        elif fmt == 'bool':
            kind, n = 'bool', 1
        else:
            kind, _, num = fmt.partition(':')
            from . import text
            n = text.parse_int(num) if text.has_token(num) else int(num)
            if isinstance(n, SymInt):
                n = n.concrete('bit field width')
            if kind == 'bytes':
                n *= 8
        if self._pos + n > self._sx.len:
            raise _bs.ReadError('Reading off the end of the data.')
        piece = self._sx.slice(self._pos, self._pos + n)
        self._pos += n
        if kind == 'uint':
            return piece.uint()
        if kind == 'bool':
            v = piece.uint()
            return (v != 0) if isinstance(v, SymInt) else bool(v)
        if kind == 'bytes':
            return piece.bytes
        if kind == 'int':
            v = piece.uint()
            return core.sx_ite(v >= (1 << (n - 1)), v - (1 << n), v)
        return piece

    @property
    def bitpos(self):
        return self._real.bitpos if self._sx is None else self._pos

    @bitpos.setter
    def bitpos(self, v):
        if self._sx is None:
            self._real.bitpos = v
        else:
            self._pos = v

    pos = bitpos

    @property
    def bytepos(self):
        if self._sx is None:
            return self._real.bytepos
        if self._pos % 8:
            raise _bs.ByteAlignError('Not byte aligned in bytepos property.')
        return self._pos // 8

    @bytepos.setter
    def bytepos(self, v):
        if self._sx is None:
            self._real.bytepos = v
        else:
            self._pos = v * 8

    @property
    def len(self):
        return self._real.len if self._sx is None else self._sx.len

    def __len__(self):
        return self.len

    def __getattr__(self, name):
        if name in ('_real', '_sx', '_pos'):
            raise AttributeError(name)
        if self._sx is None:
            return getattr(self._real, name)
        raise Unsupported(f'ConstBitStream.{name} on symbolic bits')


def pack(fmt, *values, **kw):
    if not any(_is_sym(v) for v in values):
        return _bs.pack(fmt, *values, **kw)
    out = SxBits()
    items = [f.strip() for f in fmt.split(',')]
    if len(items) != len(values):
        raise Unsupported('bitstring.pack with literal tokens')
    for item, v in zip(items, values):
        if item == 'bool':
            out.append(Bits(uint=(v._as_int() if isinstance(v, SymBool) else int(v)), length=1)
                       if _is_sym(v) else _bs.Bits(bool=v))
            continue
        kind, _, num = item.partition(':')
        n = int(num)
        if kind != 'uint':
            raise Unsupported(f'bitstring.pack token {item}')
        out.append(Bits(uint=v, length=n))
    return out


bitstring_env = EnvModule(_bs, 'bitstring', Bits=Bits, BitArray=BitArray, ConstBitStream=ConstBitStream,
                          BitStream=ConstBitStream, pack=pack)


# ---------------------------------------------------------------------------
# CRC-32/MPEG-2 as an uninterpreted function with the zero-residue axiom

def _key_of(items):
    out = []
    for v in items:
        if isinstance(v, SymInt):
            out.append(('t', v.t.get_id()))
        else:
            out.append(int(v))
    return tuple(out)


class SxCrc32Mpeg2:
    def __init__(self):
        self._items = []

    def process(self, data):
        if isinstance(data, SymBytes):
            data = data.items()
        self._items.extend(list(data))
        return self

    def final(self):
        items = self._items
        if not any(isinstance(v, SymInt) for v in items):
            from crccheck.crc import Crc32Mpeg2
            c = Crc32Mpeg2()
            c.process(list(items))
            return c.final()
        cx = ctx()
        # zero residue: the last four bytes are the big-endian crc of the prefix
        if len(items) >= 4:
            pre = _key_of(items[:-4])
            cv = cx.memo.get(('crc', pre))
            if cv is not None:
                # zero-residue axiom: crc(m || be32(crc(m))) == 0 ; "the tail is be32(crc(m))" is a
                # validity query on the path condition
                tail = 0
                for v in items[-4:]:
                    tail = tail * 256 + v
                r, _ = cx.check_valid(tail == cv)
                if r == 'unsat':
                    return 0
        key = ('crc', _key_of(items))
        cv = cx.memo.get(key)
        if cv is None:
            cv = cx.fresh_int('crc32', 0, (1 << 32) - 1)
            for v in items:
                if isinstance(v, SymInt):
                    cx.keep.append(v.t)
            cx.memo[key] = cv
        return cv

    def finalhex(self):
        raise Unsupported('finalhex of a symbolic crc')


class _CrcModule:
    Crc32Mpeg2 = SxCrc32Mpeg2

    def __getattr__(self, name):
        import crccheck.crc as real
        return getattr(real, name)


crc_env = _CrcModule()


def validate(seed=0, rounds=200):
    """differential validation of the bit model and of the CRC zero-residue axiom on concrete data"""
    import random
    from crccheck.crc import Crc32Mpeg2
    rnd = random.Random(seed)
    n = 0
    for _ in range(rounds):
        widths = [rnd.choice([1, 2, 3, 5, 6, 7, 8, 12, 13, 16, 24, 32, 33]) for _ in range(rnd.randint(1, 8))]
        pad = (-sum(widths)) % 8
        if pad:
            widths.append(pad)
        vals = [rnd.randrange(1 << w) for w in widths]
        real = _bs.BitArray()
        sx = SxBits()
        for v, w in zip(vals, widths):
            real.append(_bs.Bits(uint=v, length=w))
            sx.append(SxBits([(v, w)]))
        assert real.bytes == sx.bytes, (vals, widths)
        back = SxBits.from_bytes(real.bytes)
        pos = 0
        for v, w in zip(vals, widths):
            assert back.slice(pos, pos + w).uint() == v
            pos += w
        data = bytes(rnd.randrange(256) for _ in range(rnd.randint(0, 40)))
        c = Crc32Mpeg2()
        c.process(list(data))
        crc = c.final()
        c2 = Crc32Mpeg2()
        c2.process(list(data + crc.to_bytes(4, 'big')))
        assert c2.final() == 0
        n += 2
    return n
