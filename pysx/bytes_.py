"""SymBytes: byte string of concrete length whose content may be symbolic.

Representation: a concrete ``bytes`` skeleton plus an overlay {index: SymInt in [0,255]}.
Deliberately *not* a ``bytes`` subclass: a C routine that receives one fails loudly.
"""
from __future__ import annotations

import z3

from . import core
from .core import SymInt, SymBool, Unsupported, ctx, mk_int, sx_and


class SymBytes:
    __slots__ = ('data', 'sym')
    __sx_sym__ = True

    def __init__(self, items=None, data=None, sym=None):
        if items is not None:
            data = bytearray(len(items))
            sym = {}
            for i, v in enumerate(items):
                if isinstance(v, SymInt):
                    sym[i] = v
                else:
                    data[i] = v
            data = bytes(data)
        self.data = bytes(data)
        self.sym = sym or {}

    @staticmethod
    def make(data, sym):
        """bytes when nothing symbolic remains, else SymBytes"""
        if not sym:
            return bytes(data)
        return SymBytes(data=data, sym=sym)

    # -- sequence protocol -----------------------------------------------------
    def __sx_len__(self):
        return len(self.data)

    def __len__(self):
        return len(self.data)

    def __bool__(self):
        return len(self.data) > 0

    def items(self):
        return [self.sym.get(i, b) for i, b in enumerate(self.data)]

    def __iter__(self):
        return iter(self.items())

    def __getitem__(self, k):
        if isinstance(k, slice):
            start, stop, step = k.indices(len(self.data))
            if step != 1:
                it = self.items()[k]
                return SymBytes(items=it) if any(isinstance(v, SymInt) for v in it) else bytes(it)
            sym = {i - start: v for i, v in self.sym.items() if start <= i < stop}
            return SymBytes.make(self.data[start:stop], sym)
        if isinstance(k, SymInt):
            k = k.concrete('bytes index')
        if k < 0:
            k += len(self.data)
        if k in self.sym:
            return self.sym[k]
        return self.data[k]

    def __add__(self, o):
        if isinstance(o, (bytes, bytearray)):
            return SymBytes(data=self.data + bytes(o), sym=dict(self.sym))
        if isinstance(o, SymBytes):
            n = len(self.data)
            sym = dict(self.sym)
            sym.update({i + n: v for i, v in o.sym.items()})
            return SymBytes(data=self.data + o.data, sym=sym)
        return NotImplemented

    def __radd__(self, o):
        if isinstance(o, (bytes, bytearray)):
            n = len(o)
            return SymBytes(data=bytes(o) + self.data, sym={i + n: v for i, v in self.sym.items()})
        return NotImplemented

    def __mul__(self, n):
        if isinstance(n, int):
            r = b''
            for _ in range(n):
                r = r + self
            return r
        return NotImplemented

    def __eq__(self, o):
        if isinstance(o, (bytes, bytearray)):
            o = SymBytes(data=bytes(o), sym={})
        if not isinstance(o, SymBytes):
            return False
        if len(o.data) != len(self.data):
            return False
        conds = []
        for i in set(self.sym) | set(o.sym):
            a = self.sym.get(i, self.data[i])
            b = o.sym.get(i, o.data[i])
            conds.append(a == b)
        for i in range(len(self.data)):
            if i not in self.sym and i not in o.sym and self.data[i] != o.data[i]:
                return False
        return sx_and(*conds)

    def __ne__(self, o):
        return core.sx_not(self.__eq__(o))

    def __hash__(self):
        return hash(self.concrete())

    def concrete(self):
        b = bytearray(self.data)
        for i, v in self.sym.items():
            b[i] = v.concrete('byte')
        return bytes(b)

    def __repr__(self):
        return f'SymBytes(len={len(self.data)}, sym={len(self.sym)})'

    def __sx_eval__(self, m):
        b = bytearray(self.data)
        for i, v in self.sym.items():
            b[i] = m.eval(v.t, model_completion=True).as_long()
        return bytes(b).hex()

    def __sx_ord__(self):
        if len(self.data) != 1:
            raise TypeError('ord() expected a character')
        return self[0]

    def __sx_bytes__(self):
        return self

    def __sx_bytearray__(self):
        from . import cryptomodel
        return cryptomodel.SxByteArray(self.items())

    def __sx_memoryview__(self):
        return SymView(self)

    def tobytes(self):
        return self

    def tolist(self):
        return self.items()

    def __sx_to_int__(self, byteorder='big', signed=False):
        return bytes_to_int(self, byteorder, signed)

    def __sx_join__(self, sep, items):
        r = b''
        first = True
        for it in items:
            if not first and sep:
                r = r + sep
            r = r + it
            first = False
        return r

    def hex(self):
        from . import chars
        return chars.hex_of(self)

    def startswith(self, prefix):
        return self[:len(prefix)] == prefix

    def endswith(self, suffix):
        return self[len(self.data) - len(suffix):] == suffix

    def decode(self, *a, **k):
        return self.concrete().decode(*a, **k)

    def find(self, sub, *a):
        return self.concrete().find(sub, *a)

    def index(self, sub, *a):
        return self.concrete().index(sub, *a)


class SymView:
    """memoryview() of a SymBytes: slices stay views, tobytes() gives bytes / SymBytes"""
    __sx_sym__ = True

    def __init__(self, data):
        self.obj = data

    def __len__(self):
        return len(self.obj)

    def __sx_len__(self):
        return len(self.obj)

    def __getitem__(self, k):
        r = self.obj[k]
        if isinstance(k, slice):
            return SymView(r)
        return r

    def tobytes(self):
        return self.obj

    def tolist(self):
        return list(self.obj) if isinstance(self.obj, (bytes, bytearray)) else self.obj.items()

    def __sx_bytes__(self):
        return self.obj

    def __iter__(self):
        return iter(self.tolist())

    def release(self):
        pass

    def __eq__(self, o):
        if isinstance(o, SymView):
            o = o.obj
        return self.obj == o

    def __hash__(self):
        return id(self)


def fresh_bytes(name, n, register=True):
    """n fresh symbolic bytes named name[0..n)."""
    cx = ctx()
    items = []
    for i in range(n):
        items.append(cx.int(f'{name}[{i}]', 0, 255, register=register))
    return SymBytes(items=items)


def int_to_bytes(x, length, byteorder='big', signed=False):
    """x.to_bytes(length, byteorder) with fresh byte variables, x = sum b_k 256^k."""
    if isinstance(x, int):
        return x.to_bytes(length, byteorder, signed=signed)
    cx = ctx()
    core.note_use(x)
    lim = 1 << (8 * length)
    with core.range_check():
        if signed:
            bad = (not (-(lim >> 1) <= x) or not (x < (lim >> 1))) and 'int too big to convert'
        else:
            bad = ("can't convert negative int to unsigned" if (x < 0) else
                   ('int too big to convert' if not (x < lim) else False))
    if bad:
        raise OverflowError(bad)
    if signed:
        ux = core.sx_ite(x < 0, x + lim, x)
    else:
        ux = x
    if isinstance(ux, int):
        return ux.to_bytes(length, byteorder)
    key = ('pack', ux.t.get_id(), length)
    bs = cx.memo.get(key)
    if bs is None:
        bs = [cx.fresh_int('byte', 0, 255) for _ in range(length)]   # little endian
        cx.keep.append(ux.t)
        cx._assert(ux.t == z3.Sum([core.term_of(b) * (1 << (8 * k)) for k, b in enumerate(bs)]))
        cx.memo[key] = bs
        # unpack(pack(x)) is x itself (keeps re-encoding syntactically identical)
        cx.memo[('unpack', tuple(b.t.get_id() for b in bs))] = (x, signed)
    items = list(bs)
    if byteorder == 'big':
        items.reverse()
    return SymBytes(items=items)


def bytes_to_int(b, byteorder='big', signed=False):
    if isinstance(b, (bytes, bytearray)):
        return int.from_bytes(b, byteorder, signed=signed)
    items = b.items()
    if byteorder == 'big':
        items = list(reversed(items))
    if core.active() and all(isinstance(v, SymInt) for v in items):
        hit = ctx().memo.get(('unpack', tuple(v.t.get_id() for v in items)))
        if hit is not None and hit[1] == signed:
            return hit[0]
    x = 0
    for k, v in enumerate(items):
        x = x + v * (1 << (8 * k))
    if signed:
        lim = 1 << (8 * len(items))
        x = core.sx_ite(x >= (lim >> 1), x - lim, x)
    return x
