"""SymChars: short free-form text as a list of code points (int | SymInt), concrete length.

Operations fork per character only where the result *shape* depends on the character
(strip, split, replace with a different length ...); everything else builds ite-terms.
"""
from __future__ import annotations

import binascii as _ba

import z3

from . import core
from .core import SymInt, SymBool, Unsupported, ctx, sx_and, sx_or, sx_not, sx_ite, mk_int, term_of

_WS = (9, 10, 11, 12, 13, 28, 29, 30, 31, 32, 133, 160)     # str.isspace() code points below 0x100


def _cp(x):
    return x


def _lit(s):
    return [ord(c) for c in s]


def as_cps(x):
    if isinstance(x, SymChars):
        return x.cps
    if isinstance(x, str):
        return _lit(x)
    raise TypeError(f'expected str, got {type(x).__name__}')


def mk(cps):
    """str when every code point is concrete, else SymChars"""
    cps = list(cps)
    if all(isinstance(c, int) for c in cps):
        return ''.join(chr(c) for c in cps)
    return SymChars(cps)


def is_space(c):
    if isinstance(c, int):
        return chr(c).isspace()
    return sx_or(*[c == w for w in _WS if c.lo <= w <= c.hi]) if True else False


def is_digit(c):
    if isinstance(c, int):
        return 48 <= c <= 57
    return sx_and(c >= 48, c <= 57)


def lower_cp(c):
    if isinstance(c, int):
        return ord(chr(c).lower()) if len(chr(c).lower()) == 1 else c
    # ASCII letters only; non-ASCII code points are outside the claim of every harness using lower()
    return sx_ite(sx_and(c >= 65, c <= 90), c + 32, c)


def upper_cp(c):
    if isinstance(c, int):
        return ord(chr(c).upper()) if len(chr(c).upper()) == 1 else c
    return sx_ite(sx_and(c >= 97, c <= 122), c - 32, c)


class SymChars:
    __sx_sym__ = True
    __slots__ = ('cps',)

    def __init__(self, cps):
        self.cps = list(cps)

    # -- basics ----------------------------------------------------------------
    def __sx_len__(self):
        return len(self.cps)

    def __len__(self):
        return len(self.cps)

    def __bool__(self):
        return len(self.cps) > 0

    def __repr__(self):
        return f'SymChars({self.cps})'

    def __sx_eval__(self, m):
        out = []
        for c in self.cps:
            v = c if isinstance(c, int) else m.eval(c.t, model_completion=True).as_long()
            out.append(chr(v) if 0 <= v < 0x110000 else '?')
        return ''.join(out)

    def __sx_str__(self):
        return self

    def __sx_repr__(self):
        return mk([39] + self.cps + [39])

    def __iter__(self):
        for c in self.cps:
            yield mk([c])

    def __getitem__(self, k):
        if isinstance(k, slice):
            return mk(self.cps[k])
        if isinstance(k, SymInt):
            k = k.concrete('string index')
        return mk([self.cps[k]])

    def __add__(self, o):
        if isinstance(o, (str, SymChars)):
            return mk(self.cps + as_cps(o))
        return NotImplemented

    def __radd__(self, o):
        if isinstance(o, str):
            return mk(_lit(o) + self.cps)
        return NotImplemented

    def __mul__(self, n):
        return mk(self.cps * n)

    def __sx_ord__(self):
        if len(self.cps) != 1:
            raise TypeError(f'ord() expected a character, but string of length {len(self.cps)} found')
        return self.cps[0]

    def __eq__(self, o):
        if not isinstance(o, (str, SymChars)):
            return False
        ocps = as_cps(o)
        if len(ocps) != len(self.cps):
            return False
        return sx_and(*[a == b for a, b in zip(self.cps, ocps)])

    def __ne__(self, o):
        return sx_not(self.__eq__(o))

    def __lt__(self, o):
        raise Unsupported('ordering of symbolic strings')

    def __hash__(self):
        return hash(self.concrete())

    def concrete(self):
        return ''.join(chr(c if isinstance(c, int) else c.concrete('character')) for c in self.cps)

    def __format__(self, spec):
        # formatted text is a real str: the characters are concretised (bounded fork)
        return format(self.concrete(), spec)

    def __sx_join__(self, sep, items):
        out = []
        first = True
        for it in items:
            if not first:
                out += as_cps(sep)
            out += as_cps(it)
            first = False
        return mk(out)

    def join(self, items):
        return self.__sx_join__(self, list(items))

    # -- predicates / search ---------------------------------------------------------
    def _match_at(self, i, sub):
        return sx_and(*[self.cps[i + j] == sub[j] for j in range(len(sub))])

    def __contains__(self, sub):
        sub = as_cps(sub)
        n, k = len(self.cps), len(sub)
        if k == 0:
            return True
        if k > n:
            return False
        return bool(sx_or(*[self._match_at(i, sub) for i in range(n - k + 1)]))

    def startswith(self, prefix, start=0):
        if isinstance(prefix, tuple):
            return sx_or(*[self.startswith(p, start) for p in prefix])
        p = as_cps(prefix)
        if start + len(p) > len(self.cps):
            return False
        return self._match_at(start, p)

    def endswith(self, suffix):
        if isinstance(suffix, tuple):
            return sx_or(*[self.endswith(s) for s in suffix])
        s = as_cps(suffix)
        if len(s) > len(self.cps):
            return False
        return self._match_at(len(self.cps) - len(s), s)

    def find(self, sub, start=0):
        sub = as_cps(sub)
        for i in range(start, len(self.cps) - len(sub) + 1):
            if self._match_at(i, sub):
                return i
        return -1

    def index(self, sub, start=0):
        r = self.find(sub, start)
        if r < 0:
            raise ValueError('substring not found')
        return r

    def rfind(self, sub):
        sub = as_cps(sub)
        for i in range(len(self.cps) - len(sub), -1, -1):
            if self._match_at(i, sub):
                return i
        return -1

    def count(self, sub):
        sub = as_cps(sub)
        n = 0
        i = 0
        while i + len(sub) <= len(self.cps):
            if self._match_at(i, sub):
                n += 1
                i += max(1, len(sub))
            else:
                i += 1
        return n

    def isdigit(self):
        if not self.cps:
            return False
        return sx_and(*[is_digit(c) for c in self.cps])

    def isspace(self):
        if not self.cps:
            return False
        return sx_and(*[is_space(c) for c in self.cps])

    # -- transformations -------------------------------------------------------------
    def lower(self):
        return mk([lower_cp(c) for c in self.cps])

    def upper(self):
        return mk([upper_cp(c) for c in self.cps])

    def strip(self, chars=None):
        left = self.lstrip(chars)
        return left.rstrip(chars)

    def _in_set(self, c, chars):
        if chars is None:
            return is_space(c)
        return sx_or(*[c == ord(x) for x in chars])

    def lstrip(self, chars=None):
        i = 0
        while i < len(self.cps) and self._in_set(self.cps[i], chars):
            i += 1
        return mk(self.cps[i:])

    def rstrip(self, chars=None):
        j = len(self.cps)
        while j > 0 and self._in_set(self.cps[j - 1], chars):
            j -= 1
        return mk(self.cps[:j])

    def split(self, sep=None, maxsplit=-1):
        if sep is None:
            raise Unsupported('split() on whitespace for a symbolic string')
        s = as_cps(sep)
        out = []
        cur = []
        i = 0
        n = len(self.cps)
        while i < n:
            if (maxsplit < 0 or len(out) < maxsplit) and i + len(s) <= n and self._match_at(i, s):
                out.append(mk(cur))
                cur = []
                i += len(s)
            else:
                cur.append(self.cps[i])
                i += 1
        out.append(mk(cur))
        return out

    def partition(self, sep):
        i = self.find(sep)
        if i < 0:
            return self, '', ''
        return mk(self.cps[:i]), sep, mk(self.cps[i + len(sep):])

    def replace(self, old, new, count=-1):
        o = as_cps(old)
        nw = as_cps(new)
        if not o:
            raise Unsupported('replace of the empty string')
        if len(o) == 1 and len(nw) == 1:
            # same shape: no fork
            return mk([sx_ite(c == o[0], nw[0], c) if not isinstance(c, int) or not isinstance(o[0], int)
                       else (nw[0] if c == o[0] else c) for c in self.cps])
        out = []
        i = 0
        n = len(self.cps)
        done = 0
        while i < n:
            if (count < 0 or done < count) and i + len(o) <= n and self._match_at(i, o):
                out += nw
                i += len(o)
                done += 1
            else:
                out.append(self.cps[i])
                i += 1
        return mk(out)

    def translate_pairs(self, pairs):
        cps = []
        for c in self.cps:
            r = c
            for a, b in pairs:
                r = sx_ite(c == ord(a), ord(b), r) if not isinstance(c, int) else (ord(b) if c == ord(a) else r)
            cps.append(r)
        return mk(cps)

    def encode(self, encoding='utf-8', errors='strict'):
        return self.encode_ascii()

    def encode_ascii(self):
        from .bytes_ import SymBytes
        for c in self.cps:
            if not isinstance(c, int) and not (c < 128):
                raise Unsupported('non-ASCII code point in a symbolic string being encoded')
        return SymBytes(items=list(self.cps))

    def title(self):
        return mk(self.concrete().title())

    # -- conversions -------------------------------------------------------------------
    def __sx_int__(self, base=10):
        return parse_int(self, base)

    def __sx_float__(self):
        return parse_float(self)


def fresh(name, n, lo=0, hi=0x10FFFF, register=True):
    """n fresh symbolic characters"""
    cx = ctx()
    return SymChars([cx.int(f'{name}[{i}]', lo, hi, register=register) for i in range(n)])


def parse_int(s, base=10):
    """CPython int(str, 10) grammar: optional whitespace, sign, digits with single underscores."""
    if base != 10:
        raise Unsupported('int() of a symbolic string with base != 10')
    t = s.strip()
    cps = as_cps(t)
    if not cps:
        raise ValueError("invalid literal for int() with base 10: ''")
    sign = 1
    if cps[0] == 45:
        sign = -1
        cps = cps[1:]
    elif cps[0] == 43:
        cps = cps[1:]
    if not cps:
        raise ValueError('invalid literal for int() with base 10')
    val = 0
    prev_us = True        # an underscore is not allowed first
    for i, c in enumerate(cps):
        if is_digit(c):
            val = val * 10 + (c - 48)
            prev_us = False
        elif c == 95 and not prev_us and i + 1 < len(cps):
            prev_us = True
        else:
            raise ValueError('invalid literal for int() with base 10')
    if prev_us:
        raise ValueError('invalid literal for int() with base 10')
    return val * sign


_FLOAT_RE = (r'[-+]?(?:(?P<i>\d+(?:_\d+)*)(?:\.(?P<f>\d+(?:_\d+)*)?)?(?P<e>[eE][-+]?\d+(?:_\d+)*)?'
             r'|\.(?P<g>\d+(?:_\d+)*)(?P<h>[eE][-+]?\d+(?:_\d+)*)?|(?P<w>inf|infinity|nan))')


def parse_float(s):
    """CPython float(str) grammar (ASCII): accept / reject decided over character classes; the
    value is exact for plain decimals, opaque for exponents, underscores, inf and nan"""
    import re as _re
    from fractions import Fraction
    from . import remodel, floats
    t = s.strip()
    if not isinstance(t, SymChars):
        return float(t)
    m = remodel.SxPattern(_FLOAT_RE, _re.IGNORECASE).fullmatch(t)
    if m is None:
        raise ValueError('could not convert string to float')
    g = m.groupdict()
    if g.get('w') is not None or g.get('e') is not None or g.get('h') is not None:
        return floats.OpaqueFloat('float() of symbolic text with exponent / inf / nan')
    digits = []
    k = 0
    for part, frac in ((g.get('i'), False), (g.get('f'), True), (g.get('g'), True)):
        if part is None:
            continue
        for c in as_cps(part):
            if isinstance(c, int) and c == 95:
                continue
            if not isinstance(c, int) and bool(c == 95):
                return floats.OpaqueFloat('float() of symbolic text with underscores')
            digits.append(c - 48)
            if frac:
                k += 1
    n = 0
    for d in digits:
        n = n * 10 + d
    if as_cps(t)[0] == 45:
        n = -n
    return floats.SymFloat(0, 1)._round_result(n, 10 ** k, Fraction(0), True)


# ---------------------------------------------------------------------------
# hex / base64 over symbolic bytes

def _mark(kind, c):
    """remember that the code point term c is a character of the given alphabet by construction"""
    if isinstance(c, SymInt) and core.active():
        cx = ctx()
        cx.memo[(kind, c.t.get_id())] = True
        cx.keep.append(c.t)
    return c


def _marked(kind, c):
    return isinstance(c, SymInt) and core.active() and ctx().memo.get((kind, c.t.get_id())) is True


def _hex_digit(n):
    return _mark('hexok', sx_ite(n < 10, n + 48, n + 87))


def hex_of(b):
    cps = []
    for v in b.items() if hasattr(b, 'items') else list(b):
        hi, lo = core.sx_divmod(v, 16)
        cps += [_hex_digit(hi), _hex_digit(lo)]
    return mk(cps) if not all(isinstance(c, int) for c in cps) else SymChars(cps)


def _nibble(c):
    if isinstance(c, int):
        return int(chr(c), 16) if chr(c) in '0123456789abcdefABCDEF' else None
    if sx_and(c >= 48, c <= 57):
        return c - 48
    if sx_and(c >= 97, c <= 102):
        return c - 87
    if sx_and(c >= 65, c <= 70):
        return c - 55
    return None


def _nibble_valid(c):
    return sx_or(sx_and(c >= 48, c <= 57), sx_and(c >= 97, c <= 102), sx_and(c >= 65, c <= 70))


def _nibble_ite(c):
    return sx_ite(c <= 57, c - 48, sx_ite(c <= 70, c - 55, c - 87))


def unhex(s):
    from .bytes_ import SymBytes
    cps = as_cps(s)
    if len(cps) % 2:
        raise _ba.Error('Odd-length string')
    symbolic = [c for c in cps if not isinstance(c, int)]
    if symbolic and all(_marked('hexok', c) for c in symbolic):
        fast = True
    else:
        fast = bool(sx_and(*[_nibble_valid(c) for c in symbolic])) if symbolic else False
    out = []
    for i in range(0, len(cps), 2):
        if fast:
            a = _nibble_ite(cps[i]) if not isinstance(cps[i], int) else _nibble(cps[i])
            b = _nibble_ite(cps[i + 1]) if not isinstance(cps[i + 1], int) else _nibble(cps[i + 1])
        else:
            a, b = _nibble(cps[i]), _nibble(cps[i + 1])
        if a is None or b is None:
            raise _ba.Error('Non-hexadecimal digit found')
        out.append(a * 16 + b)
    return SymBytes(items=out) if any(isinstance(v, SymInt) for v in out) else bytes(out)


def _b64_char(v):
    """sextet -> code point"""
    if isinstance(v, int):
        return ord('ABCDEFGHIJKLMNOPQRSTUVWXYZabcdefghijklmnopqrstuvwxyz0123456789+/'[v])
    return _mark('b64ok', sx_ite(v < 26, v + 65, sx_ite(v < 52, v + 71, sx_ite(v < 62, v - 4, sx_ite(v == 62, 43, 47)))))


def b64_of(b):
    items = b.items() if hasattr(b, 'items') else list(b)
    cps = []
    for i in range(0, len(items), 3):
        grp = items[i:i + 3]
        pad = 3 - len(grp)
        grp = grp + [0] * pad
        v = (grp[0] * 256 + grp[1]) * 256 + grp[2]
        r, s3 = core.sx_divmod(v, 64)
        r, s2 = core.sx_divmod(r, 64)
        s0, s1 = core.sx_divmod(r, 64)
        quad = [_b64_char(s0), _b64_char(s1), _b64_char(s2), _b64_char(s3)]
        if pad:
            quad[4 - pad:] = [61] * pad
        cps += quad
    return SymChars(cps)


def _sextet(c):
    if isinstance(c, int):
        ch = chr(c)
        tbl = 'ABCDEFGHIJKLMNOPQRSTUVWXYZabcdefghijklmnopqrstuvwxyz0123456789+/'
        return tbl.index(ch) if ch in tbl else None
    if sx_and(c >= 65, c <= 90):
        return c - 65
    if sx_and(c >= 97, c <= 122):
        return c - 71
    if sx_and(c >= 48, c <= 57):
        return c + 4
    if c == 43:
        return 62
    if c == 47:
        return 63
    return None


def _sextet_valid(c):
    return sx_or(sx_and(c >= 65, c <= 90), sx_and(c >= 97, c <= 122), sx_and(c >= 48, c <= 57), c == 43, c == 47)


def _sextet_ite(c):
    """sextet of a code point known to be in the base64 alphabet (no fork)"""
    return sx_ite(c <= 57, sx_ite(c == 43, 62, sx_ite(c == 47, 63, c + 4)),
                  sx_ite(c <= 90, c - 65, c - 71))


def unb64(s):
    """binascii.a2b_base64 in non-strict mode for well-padded input; characters outside the
    alphabet are skipped (as CPython does), wrong padding raises binascii.Error."""
    from .bytes_ import SymBytes
    cps = as_cps(s)
    symbolic = [c for c in cps if not isinstance(c, int)]
    fast = False
    if symbolic:
        # one decision: every symbolic character is an alphabet character (always the case for
        # text produced by b64_of); otherwise fall back to the per-character case split
        if all(_marked('b64ok', c) for c in symbolic):
            fast = True
        else:
            fast = bool(sx_and(*[_sextet_valid(c) for c in symbolic]))
    sext = []
    npad = 0
    for c in cps:
        if isinstance(c, int) or not fast:
            if c == 61:
                npad += 1
                continue
            v = _sextet(c)
            if v is None:
                continue
        else:
            v = _sextet_ite(c)
        if npad:
            npad = 0
        sext.append(v)
    rem = len(sext) % 4
    if rem == 1:
        raise _ba.Error('Invalid base64-encoded string: number of data characters cannot be 1 more than a multiple of 4')
    if rem and npad < 4 - rem:
        raise _ba.Error('Incorrect padding')
    out = []
    for i in range(0, len(sext) - rem, 4):
        v = ((sext[i] * 64 + sext[i + 1]) * 64 + sext[i + 2]) * 64 + sext[i + 3]
        r, b2 = core.sx_divmod(v, 256)
        b0, b1 = core.sx_divmod(r, 256)
        out += [b0, b1, b2]
    if rem == 2:
        v = sext[-2] * 64 + sext[-1]
        out.append(core.sx_divmod(v, 16)[0])
    elif rem == 3:
        v = (sext[-3] * 64 + sext[-2]) * 64 + sext[-1]
        r = core.sx_divmod(v, 4)[0]
        b0, b1 = core.sx_divmod(r, 256)
        out += [b0, b1]
    return SymBytes(items=out) if any(isinstance(v, SymInt) for v in out) else bytes(out)
