"""SymChars: short free-form text as a list of code points (placeholder, extended later)."""
from __future__ import annotations

from .core import SymInt, Unsupported


class SymChars:
    __sx_sym__ = True

    def __init__(self, cps):
        self.cps = list(cps)


def hex_of(b):
    raise Unsupported('hex() of symbolic bytes')
