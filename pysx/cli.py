"""./vf command line: setup | check <ID> [--tier quick|thorough] | replay <file> | all"""
from __future__ import annotations

import argparse
import importlib
import json
import os
import subprocess
import sys
import time
import traceback
from concurrent.futures import ProcessPoolExecutor, as_completed
import multiprocessing as mp

ROOT = os.path.dirname(os.path.dirname(os.path.abspath(__file__)))
REPO = os.environ.get('DASHLIVE_REPO', '/repo')

HARNESSES = {
    'C01': 'harness.c01_retrievable',
    'C02': 'harness.c02_served_time',
    'C03': 'harness.c03_rewrite',
    'C04': 'harness.c04_mp4_roundtrip',
    'C05': 'harness.c05_manifest_lex',
    'C06': 'harness.c06_static',
    'C07': 'harness.c07_options',
    'C08': 'harness.c08_live_timing',
    'C09': 'harness.c09_evolution',
    'C10': 'harness.c10_init',
    'C11': 'harness.c11_drm',
    'C12': 'harness.c12_multi_period',
    'C13': 'harness.c13_range',
    'C14': 'harness.c14_events',
    'C16': 'harness.c16_failures',
    'C19': 'harness.c19_iso8601',
    'C20': 'harness.c20_buffered_reader',
}

EXIT_OK, EXIT_VIOLATION, EXIT_MACHINERY = 0, 1, 2


# ---------------------------------------------------------------------------
# worker side

def _worker_init():
    sys.setrecursionlimit(10000)
    from pysx import loader
    loader.install()


def _run_instance(mod_name, inst_name, tier):
    """Executed in a worker process: explore one harness instance."""
    from pysx import loader, explore
    t0 = time.time()
    mod = importlib.import_module(mod_name)
    inst = None
    for i in mod.instances(tier):
        if i['name'] == inst_name:
            inst = i
            break
    if inst is None:
        return {'name': inst_name, 'errors': [f'instance {inst_name} not found']}
    opts = dict(inst.get('opts', {}))
    run = explore.Run(inst['name'], inst['fn'], params=inst.get('params', {}), **opts)
    entered = set()
    repo_prefix = REPO.rstrip('/') + '/'

    def prof(frame, event, arg):
        if event == 'call':
            co = frame.f_code
            fn = co.co_filename
            if fn.startswith(repo_prefix):
                entered.add(f'{fn[len(repo_prefix):]}:{co.co_qualname}')
    prof_paths = inst.get('profile_paths', 3)
    # profile only the first few paths (cheap enough, and representative)
    orig_fn = run.fn
    state = {'n': 0}

    def wrapped(sx, **params):
        state['n'] += 1
        if state['n'] <= prof_paths:
            sys.setprofile(prof)
            try:
                return orig_fn(sx, **params)
            finally:
                sys.setprofile(None)
        return orig_fn(sx, **params)
    run.fn = wrapped
    try:
        run.explore()
    except BaseException as e:  # noqa
        run.errors.append(''.join(traceback.format_exception(type(e), e, e.__traceback__)))
    obs = {}
    for label, ob in run.obligations.items():
        obs[label] = {
            'paths': ob.paths, 'proved': ob.proved, 'status': ob.status,
            'candidates': ob.candidates, 'n_candidates': getattr(ob, 'n_candidates', len(ob.candidates)),
            'inconclusive': ob.inconclusive[:3],
        }
    return {
        'name': inst_name, 'params': _jsonable(inst.get('params', {})),
        'paths': run.paths, 'infeasible': run.infeasible, 'complete': run.complete,
        'aborted': run.aborted[:5], 'n_aborted': len(run.aborted), 'errors': run.errors[:3],
        'stats': run.stats.as_dict(), 'xcheck': getattr(run, 'xcheck', {}), 'obligations': obs, 'reached': run.reached,
        'samples': run.samples, 'path_models': run.path_models,
        'assumptions': run.assumptions, 'wall_s': round(run.wall_s, 3),
        'functions': sorted(entered), 'files': loader.source_files(),
        'bounds': _jsonable(inst.get('bounds', {})),
        'total_wall_s': round(time.time() - t0, 3),
    }


def _jsonable(x):
    try:
        json.dumps(x)
        return x
    except TypeError:
        if isinstance(x, dict):
            return {str(k): _jsonable(v) for k, v in x.items()}
        if isinstance(x, (list, tuple)):
            return [_jsonable(v) for v in x]
        return repr(x)


# ---------------------------------------------------------------------------
# replay (clean subprocess: real, un-instrumented code)

def replay_cases(mod_name, cases, timeout=600):
    """Run harness.replay(case) for each case in a clean interpreter (no import hook)."""
    if not cases:
        return []
    env = dict(os.environ)
    env['PYTHONPATH'] = os.pathsep.join([ROOT, os.path.join(ROOT, 'stubs'), REPO])
    env['PYTHONDONTWRITEBYTECODE'] = '1'
    p = subprocess.run([sys.executable, '-m', 'pysx.replay_worker', mod_name],
                       input=json.dumps(cases), capture_output=True, text=True, env=env,
                       timeout=timeout, cwd=ROOT)
    if p.returncode != 0:
        raise RuntimeError(f'replay worker failed ({p.returncode}): {p.stderr[-2000:]}')
    return json.loads(p.stdout.splitlines()[-1])


# ---------------------------------------------------------------------------
# known findings

def load_known():
    path = os.path.join(ROOT, 'known_findings.json')
    if not os.path.exists(path):
        return []
    with open(path) as f:
        return json.load(f).get('findings', [])


# ---------------------------------------------------------------------------
# check

def check(pid, tier, seed, jobs):
    t0 = time.time()
    mod_name = HARNESSES.get(pid)
    if mod_name is None:
        print(f'{pid}: not applicable / no harness (see MANIFEST.json not_applicable)')
        return EXIT_MACHINERY
    from pysx import loader
    loader.install()
    mod = importlib.import_module(mod_name)
    insts = mod.instances(tier)
    only = os.environ.get('VERIF_ONLY')
    if only:
        insts = [i for i in insts if only in i['name']]
    names = [i['name'] for i in insts]
    # seed only affects the order of the work list
    import random
    rnd = random.Random(seed)
    order = list(names)
    rnd.shuffle(order)
    # heavy instances first
    weight = {i['name']: i.get('weight', 1) for i in insts}
    order.sort(key=lambda n: -weight[n])
    results = {}
    ctx_mp = mp.get_context('spawn')
    with ProcessPoolExecutor(max_workers=min(jobs, max(1, len(order))), mp_context=ctx_mp,
                             initializer=_worker_init) as ex:
        futs = {ex.submit(_run_instance, mod_name, n, tier): n for n in order}
        for fut in as_completed(futs):
            n = futs[fut]
            try:
                results[n] = fut.result()
            except BaseException as e:  # noqa
                results[n] = {'name': n, 'errors': [f'worker failed: {type(e).__name__}: {e}']}
    return conclude(pid, tier, seed, mod, mod_name, names, results, t0)


def conclude(pid, tier, seed, mod, mod_name, names, results, t0):
    machinery = []
    known = [k for k in load_known() if k.get('property') == pid and k.get('status') == 'known']
    known_labels = {k['obligation']: k for k in known}
    xcheck = {}
    totals = dict(paths=0, infeasible=0, queries=0, solver_s=0.0, decisions=0, unknown=0,
                  sat=0, unsat=0)
    obligations = {}      # label -> aggregated
    functions, files, assumptions, samples = set(), set(), [], []
    inconclusive = []
    selfcheck_cases = []
    max_query = 0.0
    for n in names:
        r = results[n]
        if r.get('errors'):
            for e in r['errors']:
                machinery.append(f'{n}: {e}')
            if 'obligations' not in r:
                continue
        totals['paths'] += r['paths']
        for k, v in (r.get('xcheck') or {}).items():
            xcheck[k] = xcheck.get(k, 0) + v
        totals['infeasible'] += r['infeasible']
        st = r['stats']
        for k in ('queries', 'solver_s', 'decisions', 'unknown', 'sat', 'unsat'):
            totals[k] += st[k]
        max_query = max(max_query, st['max_query_s'])
        functions.update(r['functions'])
        files.update(r['files'])
        for a in r['assumptions']:
            if a not in assumptions:
                assumptions.append(a)
        for s in r['samples'][:1]:
            if len(samples) < 6:
                samples.append({'instance': n, **s})
        for pm in r['path_models']:
            if 'expect' in pm:
                selfcheck_cases.append({'kind': 'selfcheck', 'instance': n, 'params': r['params'],
                                        'inputs': pm['inputs'], 'expect': pm['expect'],
                                        'float_uncertain': pm.get('float_uncertain', 0)})
        if not r['complete']:
            for a in r['aborted'][:2]:
                inconclusive.append(f'{n}: {a[0]}: {a[1]}')
        for label, ob in r['obligations'].items():
            agg = obligations.setdefault(label, {'paths': 0, 'proved': 0, 'candidates': [],
                                                 'inconclusive': [], 'instances': 0})
            agg['paths'] += ob['paths']
            agg['proved'] += ob['proved']
            agg['instances'] += 1
            for c in ob['candidates']:
                c = dict(c)
                c['instance'] = n
                c['params'] = r['params']
                agg['candidates'].append(c)
            for why in ob['inconclusive']:
                agg['inconclusive'].append(f'{n}: {why}')
    # vacuity: every declared obligation must have been reached
    expected = getattr(mod, 'OBLIGATIONS', None)
    if expected:
        for label in expected(tier) if callable(expected) else expected:
            if label not in obligations or obligations[label]['paths'] == 0:
                machinery.append(f'vacuity: obligation {label} was never reached')

    # replay candidates on the real code
    violations = []      # (label, replay path)
    known_hits = []
    replays = 0
    os.makedirs(os.path.join(ROOT, 'replays', pid), exist_ok=True)
    for label, agg in sorted(obligations.items()):
        agg['status'] = 'discharged'
        if agg['candidates']:
            cases = [{'kind': 'candidate', 'label': label, 'instance': c['instance'],
                      'params': c['params'], 'inputs': c['inputs'], 'detail': c.get('detail')}
                     for c in agg['candidates'][:8]]
            try:
                res = replay_cases(mod_name, cases)
            except Exception as e:
                machinery.append(f'replay failed for {label}: {e}')
                res = [{'violated': None, 'error': str(e)}] * len(cases)
            replays += len(cases)
            confirmed = [(c, r) for c, r in zip(cases, res) if r.get('violated')]
            if confirmed:
                c, r = confirmed[0]
                import hashlib
                h = hashlib.sha1(json.dumps(c, sort_keys=True, default=str).encode()).hexdigest()[:10]
                rp = os.path.join(ROOT, 'replays', pid, f'{label.replace("/", "_")}-{h}.json')
                with open(rp, 'w') as f:
                    json.dump({'property': pid, 'harness': mod_name, 'case': c, 'observed': r}, f,
                              indent=1, default=str)
                agg['witness'] = {'inputs': c['inputs'], 'observed': r.get('observed')}
                if label in known_labels:
                    agg['status'] = 'known-finding'
                    known_hits.append((label, known_labels[label], rp))
                else:
                    agg['status'] = 'violated'
                    violations.append((label, rp, r))
            else:
                agg['status'] = 'inconclusive'
                agg['inconclusive'].append(
                    f'{len(cases)} candidate(s) did not reproduce on the real code: '
                    f'{json.dumps(cases[0]["inputs"], default=str)[:300]} -> {json.dumps(res[0], default=str)[:300]}')
        elif agg['inconclusive']:
            agg['status'] = 'inconclusive'
        elif agg['paths'] == 0:
            agg['status'] = 'unreached'

    # per-path concolic self-check
    self_checked = 0
    self_uncertain = 0
    if selfcheck_cases and hasattr(mod, 'observe'):
        try:
            res = replay_cases(mod_name, selfcheck_cases[:400])
            for c, r in zip(selfcheck_cases, res):
                if r.get('skipped'):
                    continue
                self_checked += 1
                if not r.get('match', False) and c.get('float_uncertain'):
                    # the path took a nondeterministic float-rounding alternative that the real
                    # double arithmetic does not take for this input: not a model error
                    self_uncertain += 1
                    continue
                if not r.get('match', False):
                    machinery.append(
                        f'self-check mismatch in {c["instance"]}: inputs={json.dumps(c["inputs"], default=str)[:300]} '
                        f'expect={json.dumps(c["expect"], default=str)[:300]} observed={json.dumps(r.get("observed"), default=str)[:300]}')
        except Exception as e:
            machinery.append(f'self-check failed: {e}')
    model_validations = 0
    if hasattr(mod, 'validate_models'):
        try:
            model_validations = mod.validate_models(seed)
        except Exception as e:
            machinery.append(f'environment-model validation failed: {e}')

    n_obl = len(obligations)
    n_dis = sum(1 for a in obligations.values() if a['status'] == 'discharged')
    wall = time.time() - t0
    ev = {
        'property_id': pid, 'tier': tier, 'seed': seed, 'level': 'model_checking',
        'coverage': {
            'states': max(1, totals['paths']),
            'transitions': max(1, totals['decisions']),
            'traces_validated_against_impl': self_checked - self_uncertain + model_validations + replays,
            'self_check_float_uncertain_skipped': self_uncertain,
            'samples': samples or [{'note': 'no complete path'}],
            'obligations': n_obl, 'discharged': n_dis,
            'obligation_status': {k: {'status': v['status'], 'paths': v['paths'], 'proved_on_paths': v['proved'],
                                      'instances': v['instances'],
                                      **({'witness': v['witness']} if 'witness' in v else {}),
                                      **({'why': v['inconclusive'][:2]} if v['status'] == 'inconclusive' else {})}
                                  for k, v in sorted(obligations.items())},
            'harness_instances': len(names),
            'paths_infeasible_pruned': totals['infeasible'],
            'queries': totals['queries'], 'solver_s': round(totals['solver_s'], 3),
            'solver_results': {'sat': totals['sat'], 'unsat': totals['unsat'], 'unknown': totals['unknown']},
            'max_query_s': round(max_query, 3),
            'second_solver_cross_check': dict(xcheck, solver='cvc5 1.4.0 (python wheel)', sample='per harness instance the 2 proven obligation queries with the longest path condition, exported by z3 as SMT-LIB2'),
            'functions_encoded': sorted(functions),
            'source_files_instrumented': len(files),
            'bounds': getattr(mod, 'bounds', lambda t: {})(tier),
            'outside_claim': getattr(mod, 'OUTSIDE', []),
            'inconclusive': inconclusive[:10],
            'known_findings_reproduced': [k[0] for k in known_hits],
            'exhaustive': False,
            'explanation': 'complete path enumeration of the real functions on proxy values; '
                           'each obligation is an SMT validity query per path (z3); states = complete paths, '
                           'transitions = branch decisions taken by the solver',
            'trusted_base': ['z3 5.1.0', 'pysx proxies and environment models (validated differentially)',
                             'CPython 3.12 semantics of proxied operations', 'third-party import stubs in /verif/stubs'],
        },
        'assumptions': assumptions + list(getattr(mod, 'ASSUMPTIONS', [])),
        'wall_s': round(wall, 2),
        'violations': len(violations),
    }
    # evidence describes runs against /repo itself: a run against a scratch tree (seed trials,
    # DASHLIVE_REPO set) or a filtered run (VERIF_ONLY) never overwrites it
    if REPO == '/repo' and not os.environ.get('VERIF_ONLY') and not os.environ.get('VERIF_NO_EVIDENCE'):
        os.makedirs(os.path.join(ROOT, 'evidence'), exist_ok=True)
        with open(os.path.join(ROOT, 'evidence', f'{pid}.json'), 'w') as f:
            json.dump(ev, f, indent=1, default=str)
            f.write('\n')
        if tier == 'thorough':
            # kept beside the per-change evidence so that a later quick run does not erase it
            os.makedirs(os.path.join(ROOT, 'evidence', 'thorough'), exist_ok=True)
            with open(os.path.join(ROOT, 'evidence', 'thorough', f'{pid}.json'), 'w') as f:
                json.dump(ev, f, indent=1, default=str)
                f.write('\n')

    print(f'{pid} [{tier}] instances={len(names)} paths={totals["paths"]} queries={totals["queries"]} '
          f'solver={totals["solver_s"]:.1f}s wall={wall:.1f}s obligations={n_dis}/{n_obl} discharged')
    for label, agg in sorted(obligations.items()):
        print(f'  {label}: {agg["status"]} (paths={agg["paths"]}, proved={agg["proved"]})')
    slow = sorted((r for r in results.values() if 'stats' in r), key=lambda r: -r['wall_s'])[:4]
    print('  slowest instances: ' + '; '.join(
        f'{r["name"]} {r["wall_s"]:.0f}s paths={r["paths"]} q={r["stats"]["queries"]} unk={r["stats"]["unknown"]}'
        for r in slow))
    for line in inconclusive[:10]:
        print(f'INCONCLUSIVE {line}')
    for label, agg in sorted(obligations.items()):
        if agg['status'] == 'inconclusive':
            print(f'INCONCLUSIVE obligation={label} {agg["inconclusive"][0][:400] if agg["inconclusive"] else ""}')
    for label, k, rp in known_hits:
        print(f'KNOWN-FINDING: property={pid} {label}: {k.get("what", "")}')
    for label, rp, r in violations:
        print(f'  violated {label}: {json.dumps(r.get("observed"), default=str)[:500]}')
        print(f'VIOLATION property={pid} replay={rp}')
    if machinery:
        for m in machinery[:10]:
            print(f'MACHINERY-ERROR {m}', file=sys.stderr)
        if not violations:
            return EXIT_MACHINERY
    if violations:
        return EXIT_VIOLATION
    if os.environ.get('VERIF_STRICT') == '1' and n_dis < n_obl - len(known_hits):
        return EXIT_MACHINERY
    return EXIT_OK


def cmd_replay(path):
    with open(path) as f:
        rec = json.load(f)
    res = replay_cases(rec['harness'], [rec['case']])
    print(json.dumps(res[0], indent=1, default=str))
    if res[0].get('violated'):
        print(f'VIOLATION property={rec["property"]} replay={path}')
        return EXIT_VIOLATION
    return EXIT_OK


def cmd_setup():
    from pysx import selftest
    return selftest.main()


def main(argv=None):
    ap = argparse.ArgumentParser(prog='vf')
    sub = ap.add_subparsers(dest='cmd', required=True)
    sub.add_parser('setup')
    c = sub.add_parser('check')
    c.add_argument('pid')
    c.add_argument('--tier', default=os.environ.get('VERIF_TIER', 'quick'), choices=['quick', 'thorough'])
    c.add_argument('--jobs', type=int, default=int(os.environ.get('VERIF_JOBS', '16')))
    r = sub.add_parser('replay')
    r.add_argument('path')
    a = sub.add_parser('all')
    a.add_argument('--tier', default='quick')
    args = ap.parse_args(argv)
    seed = int(os.environ.get('VERIF_SEED', '0') or 0)
    if args.cmd == 'setup':
        return cmd_setup()
    if args.cmd == 'check':
        return check(args.pid, args.tier, seed, args.jobs)
    if args.cmd == 'replay':
        return cmd_replay(args.path)
    if args.cmd == 'all':
        rc = 0
        for pid in HARNESSES:
            p = subprocess.run([sys.executable, '-m', 'pysx.cli', 'check', pid, '--tier', args.tier])
            rc = max(rc, p.returncode)
        return rc
    return EXIT_MACHINERY


if __name__ == '__main__':
    sys.exit(main())
