"""binascii / base64 / decimal stand-ins.  Concrete arguments go to the real library; SymBytes
arguments are converted by 4-bit / 6-bit linear decomposition into SymChars (chars.py); where a
symbolic model does not exist the value is concretised by a bounded solver fork (recorded)."""
from __future__ import annotations

import base64 as _b64
import binascii as _ba
import decimal as _dec

from . import core
from .core import SymInt, SymBool, Unsupported
from .bytes_ import SymBytes
from .env import EnvModule


def _conc(x):
    if isinstance(x, SymBytes):
        return x.concrete()
    c = getattr(x, 'concrete', None)
    if c is not None and getattr(x, '__sx_sym__', False):
        return c()
    return x


def _b2a_hex(data, *a, **k):
    if isinstance(data, SymBytes):
        from . import chars
        return chars.hex_of(data).encode_ascii()
    return _ba.b2a_hex(data, *a, **k)


def _a2b_hex(data):
    from . import chars
    if isinstance(data, chars.SymChars):
        return chars.unhex(data)
    if isinstance(data, SymBytes):
        return chars.unhex(chars.SymChars(data.items()))
    return _ba.a2b_hex(data)


def _b2a_base64(data, *a, **k):
    if isinstance(data, SymBytes):
        from . import chars
        newline = k.get('newline', True)
        r = chars.b64_of(data).encode_ascii()
        return r + b'\n' if newline else r
    return _ba.b2a_base64(data, *a, **k)


def _a2b_base64(data, *a, **k):
    from . import chars
    if isinstance(data, (chars.SymChars, SymBytes)):
        if isinstance(data, SymBytes):
            data = chars.SymChars(data.items())
        return chars.unb64(data)
    return _ba.a2b_base64(data, *a, **k)


binascii_env = EnvModule(_ba, 'binascii', b2a_hex=_b2a_hex, hexlify=_b2a_hex, a2b_hex=_a2b_hex,
                         unhexlify=_a2b_hex, b2a_base64=_b2a_base64, a2b_base64=_a2b_base64)


def _b64encode(s, altchars=None):
    if isinstance(s, SymBytes):
        from . import chars
        r = chars.b64_of(s)
        if altchars is not None:
            r = r.translate_pairs([('+', chr(altchars[0])), ('/', chr(altchars[1]))])
        return r.encode_ascii()
    return _b64.b64encode(s, altchars)


def _b64decode(s, altchars=None, validate=False):
    from . import chars
    if isinstance(s, (chars.SymChars, SymBytes)):
        if isinstance(s, SymBytes):
            s = chars.SymChars(s.items())
        if altchars is not None:
            s = s.translate_pairs([(chr(altchars[0]), '+'), (chr(altchars[1]), '/')])
        return chars.unb64(s)
    return _b64.b64decode(s, altchars, validate)


def _urlsafe_b64encode(s):
    if isinstance(s, SymBytes):
        return _b64encode(s, b'-_')
    return _b64.urlsafe_b64encode(s)


def _urlsafe_b64decode(s):
    from . import chars
    if isinstance(s, (chars.SymChars, SymBytes)):
        return _b64decode(s, b'-_')
    return _b64.urlsafe_b64decode(s)


base64_env = EnvModule(_b64, 'base64', b64encode=_b64encode, b64decode=_b64decode,
                       urlsafe_b64encode=_urlsafe_b64encode, urlsafe_b64decode=_urlsafe_b64decode,
                       standard_b64encode=_b64encode, standard_b64decode=_b64decode)


class _DecimalMeta(type):
    def __instancecheck__(cls, obj):
        return isinstance(obj, _dec.Decimal)

    def __call__(cls, value='0', context=None):
        if isinstance(value, (SymInt, SymBool)):
            value = value.concrete('decimal.Decimal()') if isinstance(value, SymInt) else int(bool(value))
        return _dec.Decimal(value, context)


class Decimal(metaclass=_DecimalMeta):
    pass


decimal_env = EnvModule(_dec, 'decimal', Decimal=Decimal)
