"""pysx core: exploration context, solver interface, SymBool / SymInt proxies.

Real dash-live code is executed on proxy values.  The only place where a path
forks is ``Ctx.decide`` (reached from ``SymBool.__bool__`` and from the
concretisation helpers).  A path is identified by its list of decisions; the
explorer (explore.py) re-executes the harness once per path.

Rules that come from the design probes (DESIGN.md 2.3/2.4):
  * the path condition is *asserted* on a solver, never passed as assumptions;
  * no z3 ``div``/``mod``: ``x // c`` is lowered by an interval-guided fork or
    a named quotient variable with ``c*q <= x < c*q + c``;
  * everything stays linear: a product of two symbolic integers forks over the
    values of one operand or raises Unsupported.
"""
from __future__ import annotations

import time
from fractions import Fraction

import z3

INF = float('inf')


class SxAbort(BaseException):
    """Base of engine control-flow exceptions (BaseException so that the code
    under check cannot swallow them with ``except Exception``)."""


class Infeasible(SxAbort):
    """The current path turned out to be infeasible (pruned, not counted)."""


class Unsupported(SxAbort):
    """An operation on a symbolic value that the engine does not model."""


class BoundExceeded(SxAbort):
    """An unwinding / size bound of the harness was hit."""


# proven obligation queries kept for the second-solver cross-check: the few with the longest
# path condition per harness instance, as SMT-LIB2 text (pysx.explore runs cvc5 on them)
XCHECK = []
XCHECK_KEEP = 2


def _xcheck_offer(ctx, negated):
    size = len(ctx.pc)
    if len(XCHECK) >= XCHECK_KEEP and size <= XCHECK[0][0]:
        return
    try:
        s2 = z3.Solver()
        s2.add(*ctx.pc)
        s2.add(negated)
        text_ = s2.to_smt2()
    except Exception:       # export problems never affect the verdict of the primary solver
        return
    XCHECK.append((size, text_))
    XCHECK.sort(key=lambda t: t[0])
    del XCHECK[:-XCHECK_KEEP]


class Stats:
    __slots__ = ('queries', 'solver_s', 'sat', 'unsat', 'unknown', 'decisions',
                 'interval_decided', 'model_decided', 'max_query_s')

    def __init__(self):
        self.queries = 0
        self.solver_s = 0.0
        self.sat = 0
        self.unsat = 0
        self.unknown = 0
        self.decisions = 0
        self.interval_decided = 0
        self.model_decided = 0
        self.max_query_s = 0.0

    def add(self, other):
        for k in self.__slots__:
            if k == 'max_query_s':
                self.max_query_s = max(self.max_query_s, other.max_query_s)
            else:
                setattr(self, k, getattr(self, k) + getattr(other, k))

    def as_dict(self):
        return {k: (round(getattr(self, k), 4) if isinstance(getattr(self, k), float)
                    else getattr(self, k)) for k in self.__slots__}


_CTX = None


def ctx() -> 'Ctx':
    if _CTX is None:
        raise RuntimeError('no active pysx context')
    return _CTX


def active() -> bool:
    return _CTX is not None


def set_ctx(c):
    global _CTX
    _CTX = c


class Ctx:
    """State of one path execution."""

    def __init__(self, prefix, *, query_timeout_ms=20000, max_decisions=4000,
                 fork_limit=64, name_seq_start=0):
        self.solver = z3.Solver()
        self.solver.set('timeout', query_timeout_ms)
        self.query_timeout_ms = query_timeout_ms
        self.prefix = list(prefix)
        self.pos = 0
        self.decisions = []          # decisions taken on this path (replayed + new)
        self.pending = []            # alternative prefixes discovered on this path
        self.pc = []                 # asserted constraints (z3 BoolRef)
        self.model = None            # a model of pc, or None if not known
        self.stats = Stats()
        self.max_decisions = max_decisions
        self.fork_limit = fork_limit
        self.memo = {}               # division-lowering memo: (term id, c) -> (q, qlo, qhi)
        self.inputs = {}             # name -> z3 term (named symbolic inputs)
        self.input_meta = {}         # name -> dict
        self.tokens = {}             # token id -> (SymInt, spec)
        self.seq = name_seq_start
        self.assumptions_text = []
        self.obligations = []        # (label, status, detail)
        self.notes = []
        self.unknown_on_path = False
        self.env = {}                # per-path environment (clock etc.)
        self.keep = []               # keep z3 terms alive (ids are used as memo keys)

    # -- fresh symbols -----------------------------------------------------
    def fresh_name(self, base):
        self.seq += 1
        return f'{base}!{self.seq}'

    def int(self, name, lo=None, hi=None, register=True):
        t = z3.Int(name)
        if register:
            self.inputs[name] = t
        if lo is not None:
            self._assert(t >= lo)
        if hi is not None:
            self._assert(t <= hi)
        if lo is not None and lo == hi:
            return lo
        return SymInt(t, -INF if lo is None else lo, INF if hi is None else hi)

    def fresh_int(self, base='v', lo=None, hi=None):
        return self.int(self.fresh_name(base), lo, hi, register=False)

    def bool(self, name, register=True):
        t = z3.Bool(name)
        if register:
            self.inputs[name] = t
        return SymBool(t)

    # -- constraints -------------------------------------------------------
    def _assert(self, cond):
        """Add a constraint without any feasibility check (range declarations,
        lowering side conditions that are satisfiable by construction)."""
        self.solver.add(cond)
        self.pc.append(cond)
        if self.model is not None:
            try:
                if not z3.is_true(self.model.eval(cond, model_completion=True)):
                    self.model = None
            except z3.Z3Exception:
                self.model = None

    def assume(self, cond, text=None):
        """Harness precondition.  Infeasible -> path silently pruned."""
        if text:
            self.assumptions_text.append(text)
        if isinstance(cond, bool):
            if not cond:
                raise Infeasible()
            return
        if isinstance(cond, SymBool):
            cond = cond.t
        cond = z3.simplify(cond)
        if z3.is_true(cond):
            return
        if z3.is_false(cond):
            raise Infeasible()
        self._assert(cond)
        if self.model is None:
            r = self._check()
            if r == 'unsat':
                raise Infeasible()

    def _check(self, extra=None):
        """check-sat of pc (and extra); returns 'sat'/'unsat'/'unknown'.
        On sat without extra the model is cached."""
        st = self.stats
        t0 = time.perf_counter()
        if extra is not None:
            self.solver.push()
            self.solver.add(extra)
        r = self.solver.check()
        res = str(r)
        m = None
        if res == 'sat':
            m = self.solver.model()
        if extra is not None:
            self.solver.pop()
        dt = time.perf_counter() - t0
        st.queries += 1
        st.solver_s += dt
        st.max_query_s = max(st.max_query_s, dt)
        if res == 'sat':
            st.sat += 1
        elif res == 'unsat':
            st.unsat += 1
        else:
            st.unknown += 1
            self.unknown_on_path = True
        self._last_model = m
        if extra is None and res == 'sat':
            self.model = m
        return res

    def model_value(self, term):
        """Evaluate term under a model of the path condition."""
        if self.model is None:
            r = self._check()
            if r == 'unsat':
                raise Infeasible()
            if r != 'sat':
                raise Unsupported('no model (solver unknown)')
        return self.model.eval(term, model_completion=True)

    # -- decisions -----------------------------------------------------------
    def _record(self, entry):
        self.decisions.append(entry)
        self.stats.decisions += 1
        if len(self.decisions) > self.max_decisions:
            raise BoundExceeded(f'more than {self.max_decisions} decisions on one path')

    def decide(self, cond) -> bool:
        """Fork point: returns the truth value of cond on this path."""
        if isinstance(cond, bool):
            return cond
        cond = z3.simplify(cond)
        if z3.is_true(cond):
            return True
        if z3.is_false(cond):
            return False
        if self.pos < len(self.prefix):
            entry = self.prefix[self.pos]
            self.pos += 1
            kind, val, forced = entry
            assert kind == 'b', f'decision kind mismatch at {self.pos}: {entry}'
            self._record(entry)
            if not forced:
                self._assert(cond if val else z3.Not(cond))
            return val
        self.pos += 1
        # new decision
        guess = None
        if self.model is not None:
            try:
                v = self.model.eval(cond, model_completion=True)
                if z3.is_true(v):
                    guess = True
                elif z3.is_false(v):
                    guess = False
            except z3.Z3Exception:
                guess = None
        if guess is None:
            r = self._check()
            if r == 'unsat':
                raise Infeasible()
            if r == 'sat':
                v = self.model.eval(cond, model_completion=True)
                guess = bool(z3.is_true(v))
            else:
                guess = True  # unknown: explore both sides below
        else:
            self.stats.model_decided += 1
        other = z3.Not(cond) if guess else cond
        keep_model = self.model
        r = self._check(other)
        if r == 'unsat':
            entry = ('b', guess, True)
            self._record(entry)
            # implied by pc: not asserted
            self.model = keep_model
            return guess
        # both sides feasible (or unknown): schedule the alternative
        alt = list(self.decisions) + [('b', (not guess), False)]
        self.pending.append(alt)
        entry = ('b', guess, False)
        self._record(entry)
        self.solver.add(cond if guess else z3.Not(cond))
        self.pc.append(cond if guess else z3.Not(cond))
        self.model = keep_model
        if self.model is None:
            pass
        return guess

    def _value_count(self, what):
        n = self.env.setdefault('concretized', {})
        n[what] = n.get(what, 0) + 1

    def nondet(self, label='nondet') -> bool:
        """Engine-side nondeterministic choice (both outcomes explored)."""
        b = z3.Bool(self.fresh_name(label))
        return self.decide(b)

    def concretize(self, term, lo=-INF, hi=INF, what='value') -> int:
        """Multi-way fork over the feasible values of an Int term."""
        term = z3.simplify(term)
        if z3.is_int_value(term):
            return term.as_long()
        if lo == hi:
            return int(lo)
        if lo != -INF and hi != INF and 8 < hi - lo <= max(self.fork_limit, 4096):
            # finite range: bisect with binary decisions (O(log n) decisions per path)
            a, b = int(lo), int(hi)
            while a < b:
                mid = (a + b) // 2
                if self.decide(term <= mid):
                    b = mid
                else:
                    a = mid + 1
            self._value_count(what)
            return a
        excluded = []
        if self.pos < len(self.prefix):
            entry = self.prefix[self.pos]
            kind = entry[0]
            if kind == 'v':
                self.pos += 1
                self._record(entry)
                self._assert(term == entry[1])
                return entry[1]
            assert kind == 'pick', f'decision kind mismatch: {entry}'
            # open alternative: values in entry[1] are excluded
            excluded = list(entry[1])
            self.pos += 1
            for v in excluded:
                self.solver.add(term != v)
                self.pc.append(term != v)
            self.model = None
        else:
            self.pos += 1
        if len(excluded) >= self.fork_limit:
            raise BoundExceeded(f'more than {self.fork_limit} values for {what}')
        if self.model is None:
            r = self._check()
            if r == 'unsat':
                raise Infeasible()
            if r != 'sat':
                raise Unsupported(f'cannot concretise {what}: solver unknown')
        v = self.model.eval(term, model_completion=True).as_long()
        keep_model = self.model
        # is there any other value?
        r = self._check(term != v)
        if r != 'unsat':
            alt = list(self.decisions) + [('pick', excluded + [v])]
            self.pending.append(alt)
        entry = ('v', v, excluded)
        self._record(entry)
        self.solver.add(term == v)
        self.pc.append(term == v)
        self.model = keep_model
        return v

    # -- obligations ---------------------------------------------------------
    def check_valid(self, cond):
        """Is cond implied by the path condition?  returns ('unsat'|'sat'|'unknown', model)."""
        if isinstance(cond, SymBool):
            cond = cond.t
        if isinstance(cond, bool):
            if cond:
                return 'unsat', None
            # need a model of the path
            if self.model is None:
                r = self._check()
                if r == 'unsat':
                    raise Infeasible()
                if r != 'sat':
                    return 'unknown', None
            return 'sat', self.model
        cond = z3.simplify(cond)
        if z3.is_true(cond):
            return 'unsat', None
        keep = self.model
        r = self._check(z3.Not(cond))
        m = self._last_model
        self.model = keep
        if r == 'unsat':
            _xcheck_offer(self, z3.Not(cond))
        return r, m


# ---------------------------------------------------------------------------
# helpers

class range_check:
    """marks decisions that only test whether a value fits its field width (the discovery pass
    of the mp4 harnesses does not treat those as structural)"""

    def __enter__(self):
        c = _CTX
        if c is not None:
            c.env['range_check'] = c.env.get('range_check', 0) + 1
        return self

    def __exit__(self, *a):
        c = _CTX
        if c is not None:
            c.env['range_check'] = c.env.get('range_check', 1) - 1
        return False


def note_use(x):
    """tell an analysis hook (if any) that the value x is written to an output encoding"""
    c = _CTX
    if c is not None:
        h = c.env.get('use_hook')
        if h is not None and isinstance(x, (SymInt, SymBool)):
            h(x)


def is_sym(x):
    return isinstance(x, (SymInt, SymBool))


def term_of(x):
    """z3 Int term of an int / SymInt / bool / SymBool."""
    if isinstance(x, SymInt):
        return x.t
    if isinstance(x, bool):
        return z3.IntVal(1 if x else 0)
    if isinstance(x, int):
        return z3.IntVal(x)
    if isinstance(x, SymBool):
        return z3.If(x.t, z3.IntVal(1), z3.IntVal(0))
    raise Unsupported(f'term_of({type(x).__name__})')


def bounds_of(x):
    if isinstance(x, SymInt):
        return x.lo, x.hi
    if isinstance(x, SymBool):
        return 0, 1
    return int(x), int(x)


def bterm_of(x):
    if isinstance(x, SymBool):
        return x.t
    if isinstance(x, bool):
        return z3.BoolVal(x)
    raise Unsupported(f'bterm_of({type(x).__name__})')


def mk_int(term, lo, hi):
    """Wrap a term; collapse to a Python int when the interval is a point."""
    if lo == hi and lo not in (INF, -INF):
        return int(lo)
    if z3.is_int_value(term):
        return term.as_long()
    return SymInt(term, lo, hi)


def mk_bool(term):
    if z3.is_true(term):
        return True
    if z3.is_false(term):
        return False
    return SymBool(term)


def _mul_bounds(alo, ahi, blo, bhi):
    def m(a, b):
        if a == 0 or b == 0:
            return 0
        return a * b
    c = [m(alo, blo), m(alo, bhi), m(ahi, blo), m(ahi, bhi)]
    return min(c), max(c)


class SymBool:
    __slots__ = ('t',)
    __sx_sym__ = True

    def __init__(self, t):
        self.t = t

    def __bool__(self):
        return ctx().decide(self.t)

    def __repr__(self):
        return f'SymBool({self.t})'

    def __and__(self, other):
        if isinstance(other, (bool, SymBool)):
            return mk_bool(z3.simplify(z3.And(self.t, bterm_of(other))))
        return NotImplemented

    __rand__ = __and__

    def __or__(self, other):
        if isinstance(other, (bool, SymBool)):
            return mk_bool(z3.simplify(z3.Or(self.t, bterm_of(other))))
        return NotImplemented

    __ror__ = __or__

    def __invert__(self):
        return mk_bool(z3.Not(self.t))

    def __eq__(self, other):
        if isinstance(other, (bool, SymBool)):
            return mk_bool(z3.simplify(self.t == bterm_of(other)))
        if isinstance(other, (int, SymInt)):
            return SymInt(term_of(self), 0, 1) == other
        return NotImplemented

    def __ne__(self, other):
        r = self.__eq__(other)
        if r is NotImplemented:
            return r
        return sx_not(r)

    def __hash__(self):
        return hash(bool(self))

    # arithmetic on booleans (True + 1 ...)
    def _as_int(self):
        return SymInt(term_of(self), 0, 1)

    def __add__(self, o):
        return self._as_int() + o

    __radd__ = __add__

    def __int__(self):
        return int(bool(self))

    def __index__(self):
        return int(bool(self))


def sx_not(x):
    if isinstance(x, SymBool):
        return mk_bool(z3.Not(x.t))
    return not x


def sx_and(*xs):
    ts = []
    for x in xs:
        if isinstance(x, SymBool):
            ts.append(x.t)
        elif not x:
            return False
    if not ts:
        return True
    return mk_bool(z3.simplify(z3.And(*ts)))


def sx_or(*xs):
    ts = []
    for x in xs:
        if isinstance(x, SymBool):
            ts.append(x.t)
        elif x:
            return True
    if not ts:
        return False
    return mk_bool(z3.simplify(z3.Or(*ts)))


def sx_implies(a, b):
    return sx_or(sx_not(a), b)


def sx_ite(c, a, b):
    """if-then-else over ints without forking."""
    if isinstance(c, bool):
        return a if c else b
    if isinstance(c, SymBool):
        if not is_sym(a) and not is_sym(b) and a == b:
            return a
        alo, ahi = bounds_of(a)
        blo, bhi = bounds_of(b)
        return mk_int(z3.If(c.t, term_of(a), term_of(b)), min(alo, blo), max(ahi, bhi))
    return a if c else b


class SymInt:
    __slots__ = ('t', 'lo', 'hi')
    __sx_sym__ = True

    def __init__(self, t, lo=-INF, hi=INF):
        self.t = t
        self.lo = lo
        self.hi = hi

    def __repr__(self):
        return f'SymInt({self.t} in [{self.lo},{self.hi}])'

    # -- conversions -------------------------------------------------------
    def __bool__(self):
        if self.lo > 0 or self.hi < 0:
            return True
        return ctx().decide(self.t != 0)

    def concrete(self, what='int'):
        return ctx().concretize(self.t, self.lo, self.hi, what)

    def __index__(self):
        return self.concrete('index')

    def __int__(self):
        return self.concrete('int()')

    def __float__(self):
        return float(self.concrete('float()'))

    def __hash__(self):
        return hash(self.concrete('hash'))

    def __format__(self, spec):
        from . import text
        return text.format_int(self, spec)

    def __str__(self):
        from . import text
        return text.format_int(self, '')

    def __round__(self, n=None):
        return self

    def __trunc__(self):
        return self

    def __floor__(self):
        return self

    def __ceil__(self):
        return self

    def bit_length(self):
        return BitLen(self)

    def to_bytes(self, length=1, byteorder='big', *, signed=False):
        from . import bytes_
        return bytes_.int_to_bytes(self, length, byteorder, signed)

    @property
    def real(self):
        return self

    @property
    def numerator(self):
        return self

    @property
    def denominator(self):
        return 1

    # -- arithmetic ----------------------------------------------------------
    def __add__(self, o):
        if isinstance(o, float) or type(o).__name__ == 'SymFloat':
            from . import floats
            return floats.from_int(self).__add__(o)
        if isinstance(o, (int, SymInt, SymBool)):
            if isinstance(o, int) and o == 0:
                return self
            olo, ohi = bounds_of(o)
            return mk_int(self.t + term_of(o), self.lo + olo, self.hi + ohi)
        return NotImplemented

    __radd__ = __add__

    def __sub__(self, o):
        if isinstance(o, float) or type(o).__name__ == 'SymFloat':
            from . import floats
            return floats.from_int(self).__sub__(o)
        if isinstance(o, (int, SymInt, SymBool)):
            if isinstance(o, int) and o == 0:
                return self
            if isinstance(o, SymInt) and o.t.eq(self.t):
                return 0
            olo, ohi = bounds_of(o)
            return mk_int(self.t - term_of(o), self.lo - ohi, self.hi - olo)
        return NotImplemented

    def __rsub__(self, o):
        if isinstance(o, float) or type(o).__name__ == 'SymFloat':
            from . import floats
            return floats.from_int(self).__rsub__(o)
        if isinstance(o, (int, SymBool)):
            olo, ohi = bounds_of(o)
            return mk_int(term_of(o) - self.t, olo - self.hi, ohi - self.lo)
        return NotImplemented

    def __neg__(self):
        return mk_int(-self.t, -self.hi, -self.lo)

    def __pos__(self):
        return self

    def __abs__(self):
        if self.lo >= 0:
            return self
        if self.hi <= 0:
            return -self
        return mk_int(z3.If(self.t >= 0, self.t, -self.t), 0, max(-self.lo, self.hi))

    def __mul__(self, o):
        if isinstance(o, float) or type(o).__name__ == 'SymFloat':
            from . import floats
            return floats.from_int(self).__mul__(o)
        if type(o).__name__ in ('timedelta', 'SymTimedelta'):
            from . import dt
            return dt.mk_td(dt.td_us(o) * self)
        if isinstance(o, SymBool):
            o = o._as_int()
        if isinstance(o, int):
            if o == 0:
                return 0
            if o == 1:
                return self
            lo, hi = _mul_bounds(self.lo, self.hi, o, o)
            return mk_int(self.t * o, lo, hi)
        if isinstance(o, SymInt):
            # nonlinear: fork over the operand with the smaller range
            a, b = self, o
            if (b.hi - b.lo) > (a.hi - a.lo):
                a, b = b, a
            if b.hi - b.lo <= ctx().fork_limit:
                v = b.concrete('factor of a product')
                return a * v
            raise Unsupported('nonlinear product of two symbolic integers')
        return NotImplemented

    __rmul__ = __mul__

    def __pow__(self, o):
        if isinstance(o, int) and 0 <= o <= 3:
            r = 1
            for _ in range(o):
                r = r * self
            return r
        raise Unsupported('pow on symbolic int')

    def __truediv__(self, o):
        from . import floats
        return floats.from_int(self) / o

    def __rtruediv__(self, o):
        from . import floats
        return floats.as_float(o) / floats.from_int(self)

    def __divmod__(self, o):
        return sx_divmod(self, o)

    def __rdivmod__(self, o):
        return sx_divmod(o, self)

    def __floordiv__(self, o):
        if isinstance(o, float) or type(o).__name__ == 'SymFloat':
            from . import floats
            return floats.from_int(self).__floordiv__(o)
        if isinstance(o, (int, SymInt)):
            return sx_divmod(self, o)[0]
        return NotImplemented

    def __rfloordiv__(self, o):
        if isinstance(o, float) or type(o).__name__ == 'SymFloat':
            from . import floats
            return floats.from_int(self).__rfloordiv__(o)
        if isinstance(o, int):
            return sx_divmod(o, self)[0]
        return NotImplemented

    def __mod__(self, o):
        if isinstance(o, float) or type(o).__name__ == 'SymFloat':
            from . import floats
            return floats.from_int(self).__mod__(o)
        if isinstance(o, (int, SymInt)):
            return sx_divmod(self, o)[1]
        return NotImplemented

    def __rmod__(self, o):
        if isinstance(o, float) or type(o).__name__ == 'SymFloat':
            from . import floats
            return floats.from_int(self).__rmod__(o)
        if isinstance(o, int):
            return sx_divmod(o, self)[1]
        return NotImplemented

    def __rshift__(self, o):
        if isinstance(o, SymInt):
            o = o.concrete('shift count')
        if isinstance(o, int) and o >= 0:
            return sx_divmod(self, 1 << o)[0]
        return NotImplemented

    def __lshift__(self, o):
        if isinstance(o, SymInt):
            o = o.concrete('shift count')
        if isinstance(o, int) and o >= 0:
            return self * (1 << o)
        return NotImplemented

    def __rlshift__(self, o):
        if isinstance(o, int):
            n = self.concrete('shift count')
            return o << n
        return NotImplemented

    def __rrshift__(self, o):
        if isinstance(o, int):
            n = self.concrete('shift count')
            return o >> n
        return NotImplemented

    def __and__(self, o):
        return sx_bitop('and', self, o)

    __rand__ = __and__

    def __or__(self, o):
        return sx_bitop('or', self, o)

    __ror__ = __or__

    def __xor__(self, o):
        return sx_bitop('xor', self, o)

    __rxor__ = __xor__

    def __invert__(self):
        return -self - 1

    # -- comparisons -------------------------------------------------------
    def _cmp(self, o, op):
        from . import floats
        if isinstance(o, floats.SymFloat) or isinstance(o, float):
            return getattr(floats.from_int(self), op)(o)
        if isinstance(o, SymBool):
            o = o._as_int()
        if not isinstance(o, (int, SymInt)):
            return NotImplemented
        olo, ohi = bounds_of(o)
        if op == '__lt__':
            if self.hi < olo:
                return True
            if self.lo >= ohi:
                return False
            return mk_bool(z3.simplify(self.t < term_of(o)))
        if op == '__le__':
            if self.hi <= olo:
                return True
            if self.lo > ohi:
                return False
            return mk_bool(z3.simplify(self.t <= term_of(o)))
        if op == '__gt__':
            if self.lo > ohi:
                return True
            if self.hi <= olo:
                return False
            return mk_bool(z3.simplify(self.t > term_of(o)))
        if op == '__ge__':
            if self.lo >= ohi:
                return True
            if self.hi < olo:
                return False
            return mk_bool(z3.simplify(self.t >= term_of(o)))
        if op == '__eq__':
            if self.hi < olo or self.lo > ohi:
                return False
            return mk_bool(z3.simplify(self.t == term_of(o)))
        if op == '__ne__':
            if self.hi < olo or self.lo > ohi:
                return True
            return mk_bool(z3.simplify(self.t != term_of(o)))
        raise AssertionError(op)

    def __lt__(self, o):
        return self._cmp(o, '__lt__')

    def __le__(self, o):
        return self._cmp(o, '__le__')

    def __gt__(self, o):
        return self._cmp(o, '__gt__')

    def __ge__(self, o):
        return self._cmp(o, '__ge__')

    def __eq__(self, o):
        if o is None:
            return False
        r = self._cmp(o, '__eq__')
        return r

    def __ne__(self, o):
        if o is None:
            return True
        return self._cmp(o, '__ne__')


class BitLen:
    """int.bit_length() of a SymInt: comparisons with constants become thresholds on |x|."""
    __sx_sym__ = True

    def __init__(self, x):
        self.x = abs(x)

    def _ge(self, k):          # bit_length >= k  <=>  |x| >= 2**(k-1)   (k >= 1)
        if k <= 0:
            return True
        return self.x >= (1 << (k - 1))

    def __gt__(self, k):
        return self._ge(k + 1)

    def __ge__(self, k):
        return self._ge(k)

    def __lt__(self, k):
        return sx_not(self._ge(k))

    def __le__(self, k):
        return sx_not(self._ge(k + 1))

    def __eq__(self, k):
        return sx_and(self._ge(k), sx_not(self._ge(k + 1)))

    def __ne__(self, k):
        return sx_not(self.__eq__(k))

    def __index__(self):
        n = 0
        while self._ge(n + 1):
            n += 1
            if n > 130:
                raise BoundExceeded('bit_length > 130')
        return n

    __int__ = __index__

    def __hash__(self):
        return hash(self.__index__())


# ---------------------------------------------------------------------------
# division lowering

K_FORK = 8


def sx_divmod(x, c):
    """Python floor divmod(x, c) without z3 div/mod terms."""
    if isinstance(x, SymBool):
        x = x._as_int()
    if isinstance(c, SymBool):
        c = c._as_int()
    if isinstance(x, int) and isinstance(c, int):
        return divmod(x, c)
    cx = ctx()
    if isinstance(c, SymInt):
        # divisor symbolic: fork over its values when few, else over the quotient
        if c.hi - c.lo <= cx.fork_limit:
            cv = c.concrete('divisor')
            return sx_divmod(x, cv)
        # nonlinear: sound over-approximation by unconstrained results (only the sign/zero
        # structure is kept); a property that depends on the value gets candidates that must replay
        if c == 0:
            raise ZeroDivisionError('integer division or modulo by zero')
        cx.env['nonlinear_overapprox'] = cx.env.get('nonlinear_overapprox', 0) + 1
        q = cx.fresh_int('nlq')
        r = cx.fresh_int('nlr')
        return q, r
    if c == 0:
        raise ZeroDivisionError('integer division or modulo by zero')
    if c < 0:
        # divmod(x, c) = (q, r) with x = q*c + r, c < r <= 0;  use divmod(-x, -c)
        q, r = sx_divmod(-x, -c)
        return q, -r
    if c == 1:
        return x, 0
    xlo, xhi = x.lo, x.hi
    if xlo != -INF and xhi != INF:
        qlo, qhi = xlo // c, xhi // c
        if qhi - qlo <= K_FORK:
            for q in range(qlo, qhi):
                if cx.decide(x.t < c * (q + 1)):
                    r = x - c * q
                    if isinstance(r, SymInt):
                        r = mk_int(r.t, max(0, xlo - c * q), min(c - 1, xhi - c * q))
                    return q, r
            q = qhi
            r = x - c * q
            if isinstance(r, SymInt):
                r = mk_int(r.t, max(0, xlo - c * q), min(c - 1, xhi - c * q))
            return q, r
    else:
        qlo = -INF if xlo == -INF else xlo // c
        qhi = INF if xhi == INF else xhi // c
    key = (x.t.get_id(), c)
    hit = cx.memo.get(key)
    if hit is None:
        qv = z3.Int(cx.fresh_name('q'))
        cx.keep.append(x.t)
        cx._assert(z3.And(c * qv <= x.t, x.t < c * qv + c))
        hit = qv
        cx.memo[key] = hit
    q = mk_int(hit, qlo, qhi)
    r = mk_int(x.t - c * hit, 0, c - 1)
    return q, r


class XorInt(SymInt):
    """xor of byte-sized symbolic operands kept as an operand multiset (mod 2) plus a constant;
    the bit-level z3 term is only built when something other than xor / equality needs it"""
    __slots__ = ('ops', 'const', '_term', 'width')

    def __init__(self, ops, const, width):
        # canonical: cancel duplicate operands, sort by term id
        seen = {}
        for o in ops:
            k = o.t.get_id()
            if k in seen:
                del seen[k]
            else:
                seen[k] = o
        self.ops = [seen[k] for k in sorted(seen)]
        self.const = const
        self.width = width
        self._term = None
        self.lo = 0
        self.hi = (1 << width) - 1

    @property
    def t(self):
        if self._term is None:
            acc = self.const
            for o in self.ops:
                acc = _bitwise_full('xor', o, acc) if isinstance(acc, SymInt) else \
                    (_bitwise_full('xor', o, SymInt(z3.IntVal(acc), acc, acc)) if acc else o)
            self._term = term_of(acc)
        return self._term

    @t.setter
    def t(self, v):
        self._term = v

    def key(self):
        return (tuple(o.t.get_id() for o in self.ops), self.const)

    def _same_operands(self, o):
        """the operand multisets are pairwise provably equal (cheap validity queries) -> equal values"""
        if not isinstance(o, XorInt) or self.const != o.const or len(self.ops) != len(o.ops):
            return False
        if self.key() == o.key():
            return True
        cx = ctx()
        rest = list(o.ops)
        for a in self.ops:
            hit = None
            for j, b in enumerate(rest):
                if a.t.eq(b.t):
                    hit = j
                    break
            if hit is None:
                for j, b in enumerate(rest):
                    r, _ = cx.check_valid(a.t == b.t)
                    if r == 'unsat':
                        hit = j
                        break
            if hit is None:
                return False
            rest.pop(hit)
        return True

    def __eq__(self, o):
        if self._same_operands(o):
            return True
        return SymInt.__eq__(self, o)

    def __ne__(self, o):
        if self._same_operands(o):
            return False
        return SymInt.__ne__(self, o)

    __hash__ = SymInt.__hash__


def _xor_operands(x):
    if isinstance(x, XorInt):
        return list(x.ops), x.const
    if isinstance(x, SymInt):
        return [x], 0
    return [], int(x)


def sx_bitop(op, a, b):
    """and/or/xor where one operand is a non-negative constant of the form used
    for masks; general case forks over the bits of the smaller operand range."""
    if isinstance(a, int) and isinstance(b, int):
        return {'and': a & b, 'or': a | b, 'xor': a ^ b}[op]
    if op == 'xor' and isinstance(a, (int, SymInt)) and isinstance(b, (int, SymInt)) \
            and not isinstance(a, bool) and not isinstance(b, bool):
        alo, ahi = bounds_of(a)
        blo, bhi = bounds_of(b)
        if alo >= 0 and blo >= 0 and ahi != INF and bhi != INF and \
                (isinstance(a, SymInt) and isinstance(b, SymInt) or isinstance(a, XorInt) or isinstance(b, XorInt)):
            width = max(int(ahi).bit_length(), int(bhi).bit_length())
            if width <= 64:
                oa, ca = _xor_operands(a)
                ob, cb = _xor_operands(b)
                r = XorInt(oa + ob, ca ^ cb, width)
                if not r.ops:
                    return r.const
                if len(r.ops) == 1 and r.const == 0:
                    return r.ops[0]
                return r
    if isinstance(a, SymBool):
        a = a._as_int()
    if isinstance(b, SymBool):
        b = b._as_int()
    if isinstance(a, int):
        a, b = b, a
    if not isinstance(a, SymInt):
        return NotImplemented
    if isinstance(b, SymInt):
        if b.hi - b.lo <= 16:
            b = b.concrete('bit operand')
        elif a.hi - a.lo <= 16:
            a, b = b, a.concrete('bit operand')
            if isinstance(a, int):
                return {'and': a & b, 'or': a | b, 'xor': a ^ b}[op]
        else:
            # both wide: decompose both into bits up to the common width
            return _bitwise_full(op, a, b)
    if not isinstance(b, int):
        return NotImplemented
    if b < 0 or a.lo < 0:
        if op == 'and' and b >= 0 and a.lo < 0:
            # x & mask == x mod 2^k when mask = 2^k - 1
            if (b & (b + 1)) == 0:
                return sx_divmod(a, b + 1)[1]
        raise Unsupported(f'bit operation {op} with a negative operand')
    if b == 0:
        return 0 if op == 'and' else a
    # split a into the bit fields delimited by runs of the mask
    res = 0
    pos = 0
    rest = a
    mask = b
    width = max(b.bit_length(), 0)
    # process mask runs from the least significant bit
    while pos < width:
        bit = (mask >> pos) & 1
        run = 1
        while pos + run < width and ((mask >> (pos + run)) & 1) == bit:
            run += 1
        rest, field = sx_divmod(rest, 1 << run)
        if op == 'and':
            part = field if bit else 0
        elif op == 'or':
            part = ((1 << run) - 1) if bit else field
        else:
            part = (((1 << run) - 1) - field) if bit else field
        res = res + part * (1 << pos)
        pos += run
    if op != 'and':
        res = res + rest * (1 << pos)
    return res


def _bitwise_full(op, a, b):
    if a.lo < 0 or b.lo < 0 or a.hi == INF or b.hi == INF:
        raise Unsupported('bit operation on two unbounded symbolic ints')
    width = max(int(a.hi).bit_length(), int(b.hi).bit_length())
    if width > 64:
        raise Unsupported('bit operation wider than 64 bits')
    abits = to_bits(a, width)
    bbits = to_bits(b, width)
    res = 0
    for i in range(width):
        x, y = abits[i], bbits[i]
        if op == 'and':
            z = sx_and(x, y)
        elif op == 'or':
            z = sx_or(x, y)
        else:
            z = mk_bool(z3.simplify(z3.Xor(bterm_of(x), bterm_of(y)))) \
                if (is_sym(x) or is_sym(y)) else (x != y)
        res = res + sx_ite(z, 1 << i, 0)
    return res


def to_bits(x, width):
    """little-endian list of bool/SymBool with x = sum b_i 2^i (fresh vars)."""
    if isinstance(x, int):
        return [bool((x >> i) & 1) for i in range(width)]
    cx = ctx()
    key = ('bits', x.t.get_id(), width)
    hit = cx.memo.get(key)
    if hit is None:
        bs = [z3.Bool(cx.fresh_name('bit')) for _ in range(width)]
        cx.keep.append(x.t)
        cx._assert(x.t == z3.Sum([z3.If(b, 1 << i, 0) for i, b in enumerate(bs)]))
        hit = [SymBool(b) for b in bs]
        cx.memo[key] = hit
    return hit


def sx_min(*args, **kw):
    orig = args
    if len(args) == 1:
        args = tuple(args[0])
        orig = (args,)
    if not any(is_sym(a) for a in args) or kw:
        return min(*orig, **kw)
    from . import floats
    if any(isinstance(a, (float, floats.SymFloat)) for a in args):
        r = args[0]
        for a in args[1:]:
            if a < r:
                r = a
        return r
    r = args[0]
    for a in args[1:]:
        if not isinstance(a, (int, SymInt, SymBool)) or not isinstance(r, (int, SymInt, SymBool)):
            if a < r:
                r = a
            continue
        alo, ahi = bounds_of(a)
        rlo, rhi = bounds_of(r)
        if ahi <= rlo:
            r = a
        elif rhi <= alo:
            pass
        else:
            r = mk_int(z3.If(term_of(a) < term_of(r), term_of(a), term_of(r)),
                       min(alo, rlo), min(ahi, rhi))
    return r


def sx_max(*args, **kw):
    orig = args
    if len(args) == 1:
        args = tuple(args[0])
        orig = (args,)
    if not any(is_sym(a) for a in args) or kw:
        return max(*orig, **kw)
    r = args[0]
    for a in args[1:]:
        if not isinstance(a, (int, SymInt, SymBool)) or not isinstance(r, (int, SymInt, SymBool)):
            if a > r:
                r = a
            continue
        alo, ahi = bounds_of(a)
        rlo, rhi = bounds_of(r)
        if alo >= rhi:
            r = a
        elif rlo >= ahi:
            pass
        else:
            r = mk_int(z3.If(term_of(a) > term_of(r), term_of(a), term_of(r)),
                       max(alo, rlo), max(ahi, rhi))
    return r


def refine(x, lo=None, hi=None):
    """Return x with a tightened interval (facts established by the caller)."""
    if not isinstance(x, SymInt):
        return x
    nlo = x.lo if lo is None else max(x.lo, lo)
    nhi = x.hi if hi is None else min(x.hi, hi)
    return mk_int(x.t, nlo, nhi)
