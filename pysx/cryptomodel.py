"""SHA-256 and AES-ECB as uninterpreted functions of their input byte terms (same inputs give
the same output; nothing else is assumed).  Concrete inputs go to the real primitives."""
from __future__ import annotations

import z3

from . import core
from .core import SymInt, ctx
from .bytes_ import SymBytes


def _items(data):
    if isinstance(data, SymBytes):
        return data.items()
    if hasattr(data, '__sx_bytes__'):
        d = data.__sx_bytes__()
        return d.items() if isinstance(d, SymBytes) else list(bytes(d))
    return list(bytes(data))


def _uf(name, items, nout):
    """nout byte-valued applications f_j(items) of a z3 uninterpreted function family"""
    cx = ctx()
    L = len(items)
    args = [core.term_of(v) for v in items]
    out = []
    for j in range(nout):
        f = z3.Function(f'{name}_{L}_{j}', *([z3.IntSort()] * L + [z3.IntSort()]))
        t = f(*args)
        cx._assert(z3.And(t >= 0, t <= 255))
        cx.keep.append(t)
        out.append(SymInt(t, 0, 255))
    return SymBytes(items=out)


class _Sha256:
    digest_size = 32

    def __init__(self, data=None):
        self._items = []
        if data is not None:
            self.update(data)

    def update(self, data):
        self._items.extend(_items(data))

    def digest(self):
        if not any(isinstance(v, SymInt) for v in self._items):
            from Crypto.Hash import SHA256
            h = SHA256.new()
            h.update(bytes(self._items))
            return h.digest()
        return _uf('sha256', self._items, 32)

    def hexdigest(self):
        d = self.digest()
        if isinstance(d, SymBytes):
            from . import chars
            return chars.hex_of(d)
        return d.hex()

    def copy(self):
        c = _Sha256()
        c._items = list(self._items)
        return c


class _SHA256Module:
    digest_size = 32

    @staticmethod
    def new(data=None):
        return _Sha256(data)


class _AesEcb:
    def __init__(self, key):
        self.key = key

    def encrypt(self, data):
        items = _items(data)
        if len(items) % 16:
            raise ValueError('Data must be aligned to block boundary in ECB mode')
        kitems = _items(self.key)
        if not any(isinstance(v, SymInt) for v in items + kitems):
            from Crypto.Cipher import AES
            return AES.new(bytes(kitems), AES.MODE_ECB).encrypt(bytes(items))
        out = b''
        for i in range(0, len(items), 16):
            out = out + _uf('aes_ecb_enc', kitems + items[i:i + 16], 16)
        return out

    def decrypt(self, data):
        raise core.Unsupported('AES decryption of symbolic data')


class _AESModule:
    MODE_ECB = 1
    block_size = 16

    def __getattr__(self, name):
        from Crypto.Cipher import AES
        return getattr(AES, name)

    def new(self, key, mode=1, *a, **k):
        kitems = _items(key)
        if mode == 1 and (isinstance(key, SymBytes) or True):
            if len(kitems) not in (16, 24, 32):
                raise ValueError(f'Incorrect AES key length ({len(kitems)} bytes)')
            return _AesEcb(key)
        from Crypto.Cipher import AES
        return AES.new(key, mode, *a, **k)


class _NS:
    pass


hash_env = _NS()
hash_env.SHA256 = _SHA256Module()
cipher_env = _NS()
cipher_env.AES = _AESModule()


class SxByteArray:
    """mutable byte array whose items may be symbolic (shadow of bytearray(n))"""
    __sx_sym__ = True

    def __init__(self, items):
        self.items_ = list(items)

    def __len__(self):
        return len(self.items_)

    def __sx_len__(self):
        return len(self.items_)

    def __getitem__(self, k):
        if isinstance(k, slice):
            return SxByteArray(self.items_[k])
        if isinstance(k, SymInt):
            k = k.concrete('bytearray index')
        return self.items_[k]

    def __setitem__(self, k, v):
        if isinstance(k, SymInt):
            k = k.concrete('bytearray index')
        if isinstance(v, int) and not 0 <= v <= 255:
            raise ValueError('byte must be in range(0, 256)')
        if isinstance(v, SymInt):
            if not (0 <= v) or not (v <= 255):
                raise ValueError('byte must be in range(0, 256)')
        self.items_[k] = v

    def __iter__(self):
        return iter(self.items_)

    def __sx_bytes__(self):
        return SymBytes.make(bytes(v if isinstance(v, int) else 0 for v in self.items_),
                             {i: v for i, v in enumerate(self.items_) if isinstance(v, SymInt)})

    def __sx_bytearray__(self):
        return SxByteArray(self.items_)

    def __eq__(self, o):
        return self.__sx_bytes__() == (o.__sx_bytes__() if hasattr(o, '__sx_bytes__') else o)

    def __hash__(self):
        return id(self)

    def __sx_eval__(self, m):
        b = self.__sx_bytes__()
        return b.__sx_eval__(m) if isinstance(b, SymBytes) else bytes(b).hex()

    def hex(self):
        b = self.__sx_bytes__()
        return b.hex()
