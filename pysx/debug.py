"""python -m pysx.debug <harness module> <instance substring> [tier] - run instances in-process and print results."""
import sys, json, importlib, time
from pysx import loader
loader.install()
from pysx import explore

def main():
    mod = importlib.import_module(sys.argv[1])
    sub = sys.argv[2]
    tier = sys.argv[3] if len(sys.argv) > 3 else 'quick'
    for inst in mod.instances(tier):
        if sub not in inst['name']:
            continue
        run = explore.Run(inst['name'], inst['fn'], params=inst.get('params', {}), **inst.get('opts', {}))
        run.explore()
        print(f"== {inst['name']}: paths={run.paths} infeasible={run.infeasible} complete={run.complete} "
              f"wall={run.wall_s:.2f}s stats={run.stats.as_dict()}")
        for a in run.aborted[:5]:
            print('   aborted:', a)
        for e in run.errors[:3]:
            print('   ERROR:', e)
        for label, ob in sorted(run.obligations.items()):
            print(f'   {label}: {ob.status} paths={ob.paths} proved={ob.proved} cands={getattr(ob, "n_candidates", 0)}')
            for c in ob.candidates[:2]:
                print('      cand:', json.dumps(c, default=str)[:700])
                print('      detail:', json.dumps(c.get('detail'), default=str)[:1500])
            for w in ob.inconclusive[:2]:
                print('      inconclusive:', w)

main()
