"""datetime stand-in: SymTimedelta (one Int of microseconds) and SymDatetime (Int of
local wall-clock microseconds since ordinal 0 + tzinfo), calendar fields introduced
relationally (DESIGN.md 2.2).  For concrete arguments everything is the real module.
"""
from __future__ import annotations

import datetime as _dt
from fractions import Fraction

import z3

from . import core, floats, text
from .core import SymInt, SymBool, Unsupported, ctx, INF, mk_int, bounds_of, term_of, sx_divmod
from .env import EnvModule

US = 1_000_000
DAY = 86400 * US
_DBM = [0, 0, 31, 59, 90, 120, 151, 181, 212, 243, 273, 304, 334]   # days before month (non-leap)
_DIM = [0, 31, 28, 31, 30, 31, 30, 31, 31, 30, 31, 30, 31]


def _sym(*xs):
    return any(isinstance(x, (SymInt, SymBool, floats.SymFloat)) for x in xs)


# ---------------------------------------------------------------------------
# timedelta

def td_us(td):
    """total microseconds of a real or symbolic timedelta."""
    if isinstance(td, SymTimedelta):
        return td.us
    return (td.days * 86400 + td.seconds) * US + td.microseconds


def mk_td(us):
    if isinstance(us, int):
        return _dt.timedelta(microseconds=us)
    return SymTimedelta(us)


class SymTimedelta:
    __slots__ = ('us',)
    __sx_sym__ = True

    def __init__(self, us):
        self.us = us

    def __repr__(self):
        return f'SymTimedelta({self.us})'

    def __sx_eval__(self, m):
        v = m.eval(term_of(self.us), model_completion=True).as_long()
        return f'{v}us'

    def _dsu(self):
        s, u = sx_divmod(self.us, US)
        d, s = sx_divmod(s, 86400)
        return d, s, u

    @property
    def days(self):
        return self._dsu()[0]

    @property
    def seconds(self):
        return self._dsu()[1]

    @property
    def microseconds(self):
        return sx_divmod(self.us, US)[1]

    def total_seconds(self):
        return floats.SymFloat(0, 1)._round_result(self.us, US, Fraction(0), True)

    def __add__(self, o):
        if isinstance(o, (SymTimedelta, _dt.timedelta)):
            return mk_td(self.us + td_us(o))
        if isinstance(o, (SymDatetime, _dt.datetime)):
            return as_symdt(o) + self
        return NotImplemented

    __radd__ = __add__

    def __sub__(self, o):
        if isinstance(o, (SymTimedelta, _dt.timedelta)):
            return mk_td(self.us - td_us(o))
        return NotImplemented

    def __rsub__(self, o):
        if isinstance(o, _dt.timedelta):
            return mk_td(td_us(o) - self.us)
        if isinstance(o, _dt.datetime):
            return as_symdt(o) - self
        return NotImplemented

    def __neg__(self):
        return mk_td(-self.us)

    def __pos__(self):
        return self

    def __abs__(self):
        return mk_td(abs(self.us))

    def __mul__(self, o):
        if isinstance(o, (int, SymInt)):
            return mk_td(self.us * o)
        if isinstance(o, (float, floats.SymFloat)):
            f = floats.as_float(self.us) * o
            return mk_td(f.round_half_even())
        return NotImplemented

    __rmul__ = __mul__

    def __truediv__(self, o):
        if isinstance(o, (SymTimedelta, _dt.timedelta)):
            return floats.as_float(self.us) / floats.as_float(td_us(o))
        if isinstance(o, (int, SymInt)):
            f = floats.SymFloat(self.us, 1) / o
            # timedelta / int is computed exactly on integers (round half even)
            f.err = Fraction(0)
            return mk_td(f.round_half_even())
        return NotImplemented

    def __floordiv__(self, o):
        if isinstance(o, (SymTimedelta, _dt.timedelta)):
            return self.us // td_us(o)
        if isinstance(o, (int, SymInt)):
            return mk_td(self.us // o)
        return NotImplemented

    def __mod__(self, o):
        if isinstance(o, (SymTimedelta, _dt.timedelta)):
            return mk_td(self.us % td_us(o))
        return NotImplemented

    def _cmp(self, o, op):
        if isinstance(o, (SymTimedelta, _dt.timedelta)):
            return getattr(self.us, op)(td_us(o))
        return NotImplemented

    def __lt__(self, o):
        return self._cmp(o, '__lt__')

    def __le__(self, o):
        return self._cmp(o, '__le__')

    def __gt__(self, o):
        return self._cmp(o, '__gt__')

    def __ge__(self, o):
        return self._cmp(o, '__ge__')

    def __eq__(self, o):
        if isinstance(o, (SymTimedelta, _dt.timedelta)):
            return self.us == td_us(o)
        return False

    def __ne__(self, o):
        if isinstance(o, (SymTimedelta, _dt.timedelta)):
            return self.us != td_us(o)
        return True

    def __bool__(self):
        return bool(self.us != 0)

    def __hash__(self):
        return hash(self.concrete())

    def concrete(self):
        return _dt.timedelta(microseconds=self.us.concrete('timedelta'))

    def __str__(self):
        raise Unsupported('str() of a symbolic timedelta')

    def __format__(self, spec):
        return '<timedelta>'


def _rcmp(real, op, sym):
    return NotImplemented


def make_timedelta(days=0, seconds=0, microseconds=0, milliseconds=0, minutes=0, hours=0, weeks=0):
    args = (days, seconds, microseconds, milliseconds, minutes, hours, weeks)
    if not _sym(*args):
        return _dt.timedelta(days, seconds, microseconds, milliseconds, minutes, hours, weeks)
    total = 0
    leftover = None  # SymFloat of fractional microseconds, handled per CPython's accum()
    for val, factor in ((days, DAY), (seconds, US), (microseconds, 1), (milliseconds, 1000),
                        (minutes, 60 * US), (hours, 3600 * US), (weeks, 7 * DAY)):
        if isinstance(val, (float, floats.SymFloat)):
            f = floats.as_float(val)
            if f.is_concrete() and f.den == 1 and f.err == 0:
                total = total + f.n * factor
                continue
            if leftover is not None:
                raise Unsupported('timedelta() with two fractional float arguments')
            # CPython: intpart*factor + trunc(frac*factor) + round_half_even(leftover);
            # net effect: round_half_even(f*factor) with one extra product rounding of
            # magnitude < factor (error <= factor * 2^-53).
            scaled = floats.SymFloat(f.n * factor, f.den, f.err * factor, False)
            leftover = scaled.round_half_even(extra_err=floats.U * factor)
            total = total + leftover
        elif isinstance(val, SymBool):
            total = total + val._as_int() * factor
        else:
            total = total + val * factor
    return mk_td(total)


class _Meta(type):
    def __instancecheck__(cls, obj):
        return isinstance(obj, cls._real) or isinstance(obj, cls._proxy)

    def __subclasscheck__(cls, sub):
        try:
            return issubclass(sub, cls._real)
        except TypeError:
            return False

    def __call__(cls, *a, **k):
        if cls.__dict__.get('_root'):
            return cls._convert(*a, **k)
        return type.__call__(cls, *a, **k)

    def __eq__(cls, other):
        return other is cls or other is cls._real

    def __hash__(cls):
        return hash(cls._real)

    def __or__(cls, other):
        return cls._real | (other._real if hasattr(other, '_real') else other)

    def __ror__(cls, other):
        return (other._real if hasattr(other, '_real') else other) | cls._real


class sx_timedelta(_dt.timedelta, metaclass=_Meta):
    _real = _dt.timedelta
    _proxy = SymTimedelta
    _root = True

    @staticmethod
    def _convert(*a, **k):
        return make_timedelta(*a, **k)


# ---------------------------------------------------------------------------
# calendar (relational)

def _leap_terms(y):
    """z3 Bool 'y is a leap year' using named quotients (no div/mod terms)."""
    cx = ctx()
    key = ('leap', y.get_id())
    hit = cx.memo.get(key)
    if hit is not None:
        return hit
    q4, q100, q400 = (z3.Int(cx.fresh_name('yq')) for _ in range(3))
    r4, r100, r400 = y - 4 * q4, y - 100 * q100, y - 400 * q400
    cx.keep.append(y)
    cx._assert(z3.And(r4 >= 0, r4 < 4, r100 >= 0, r100 < 100, r400 >= 0, r400 < 400))
    leap = z3.And(r4 == 0, z3.Or(r100 != 0, r400 == 0))
    cx.memo[key] = leap
    return leap


def _days_before_year(y):
    cx = ctx()
    key = ('dby', y.get_id())
    hit = cx.memo.get(key)
    if hit is not None:
        return hit
    y1 = y - 1
    q4, q100, q400 = (z3.Int(cx.fresh_name('yq')) for _ in range(3))
    cx.keep.append(y)
    cx._assert(z3.And(4 * q4 <= y1, y1 < 4 * q4 + 4, 100 * q100 <= y1, y1 < 100 * q100 + 100,
                      400 * q400 <= y1, y1 < 400 * q400 + 400))
    res = 365 * y1 + q4 - q100 + q400
    cx.memo[key] = res
    return res


def ymd_to_ordinal(y, m, d):
    """ordinal of (y, m, d); ints or SymInts; asserts nothing about validity."""
    if not _sym(y, m, d):
        return _dt.date(y, m, d).toordinal()
    if isinstance(y, int):
        dby = _dt.date(y, 1, 1).toordinal() - 1
        leap = z3.BoolVal(y % 4 == 0 and (y % 100 != 0 or y % 400 == 0))
    else:
        dby = _days_before_year(y.t)
        leap = _leap_terms(y.t)
    if isinstance(m, int):
        dbm = _DBM[m]
        adj = z3.If(leap, 1, 0) if m > 2 else 0
    else:
        mt = m.t
        dbm = z3.IntVal(_DBM[12])
        for k in range(11, 0, -1):
            dbm = z3.If(mt == k, _DBM[k], dbm)
        adj = z3.If(z3.And(leap, mt > 2), 1, 0)
    t = term_of(dby) if not z3.is_expr(dby) else dby
    t = t + dbm + adj + term_of(d)
    t = z3.simplify(t)
    if z3.is_int_value(t):
        return t.as_long()
    ylo, yhi = bounds_of(y)
    lo = -INF if ylo == -INF else _dt.date(max(1, int(ylo)), 1, 1).toordinal()
    hi = INF if yhi == INF else _dt.date(min(9999, int(yhi)), 12, 31).toordinal()
    return mk_int(t, lo, hi)


def days_in_month_ok(y, m, d):
    """SymBool/bool: 1 <= m <= 12 and 1 <= d <= days_in_month(y, m)."""
    if not _sym(y, m, d):
        try:
            _dt.date(y, m, d)
            return True
        except ValueError:
            return False
    if isinstance(y, int):
        leap = z3.BoolVal(y % 4 == 0 and (y % 100 != 0 or y % 400 == 0))
    else:
        leap = _leap_terms(y.t)
    mt, dt_ = term_of(m), term_of(d)
    dim = z3.IntVal(31)
    for k in range(1, 13):
        v = z3.If(leap, 29, 28) if k == 2 else _DIM[k]
        dim = z3.If(mt == k, v, dim)
    return core.mk_bool(z3.simplify(z3.And(mt >= 1, mt <= 12, dt_ >= 1, dt_ <= dim)))


def ordinal_to_ymd(o):
    if isinstance(o, int):
        d = _dt.date.fromordinal(o)
        return d.year, d.month, d.day
    cx = ctx()
    key = ('ymd', o.t.get_id())
    hit = cx.memo.get(key)
    if hit is not None:
        return hit
    if o.hi - o.lo <= 3:
        v = o.concrete('day ordinal')
        return ordinal_to_ymd(v)
    ylo = 1 if o.lo == -INF else _dt.date.fromordinal(max(1, int(o.lo))).year
    yhi = 9999 if o.hi == INF else _dt.date.fromordinal(min(3652059, int(o.hi))).year
    y = cx.fresh_int('year', ylo, yhi)
    m = cx.fresh_int('month', 1, 12)
    d = cx.fresh_int('day', 1, 31)
    ok = days_in_month_ok(y, m, d)
    cx._assert(core.bterm_of(ok) if not isinstance(ok, bool) else z3.BoolVal(ok))
    cx._assert(term_of(ymd_to_ordinal(y, m, d)) == o.t)
    cx.keep.append(o.t)
    hit = (y, m, d)
    cx.memo[key] = hit
    return hit


# ---------------------------------------------------------------------------
# tz helpers

class SymTz(_dt.tzinfo):
    """tzinfo with a symbolic fixed offset in minutes (harness-made)."""

    def __init__(self, minutes):
        self.minutes = minutes

    def utcoffset(self, dt):
        return mk_td(self.minutes * 60 * US)

    def dst(self, dt):
        return _dt.timedelta(0)

    def tzname(self, dt):
        return 'sym'


def _off_us(tz, dt=None):
    if tz is None:
        return 0
    off = tz.utcoffset(dt)
    if off is None:
        return 0
    return td_us(off)


# ---------------------------------------------------------------------------
# datetime

class SymDatetime:
    __slots__ = ('wall', 'tzinfo', '_ymd', '_ord', '_f')
    __sx_sym__ = True

    def __init__(self, wall, tzinfo=None, ymd=None, ordinal=None, hmsu=None):
        self.wall = wall          # local wall clock: ordinal*DAY + microseconds of day
        self.tzinfo = tzinfo
        self._ymd = ymd
        self._ord = ordinal
        self._f = hmsu

    def __repr__(self):
        return f'SymDatetime({self.wall}, tz={self.tzinfo!r})'

    def __sx_eval__(self, m):
        w = self.wall
        if not isinstance(w, int):
            w = m.eval(w.t, model_completion=True).as_long()
        off = _off_us(self.tzinfo)
        if not isinstance(off, int):
            off = m.eval(off.t, model_completion=True).as_long()
        try:
            d = wall_to_real(w, _dt.timezone(_dt.timedelta(microseconds=off)) if self.tzinfo is not None else None)
            return d.isoformat()
        except Exception:
            return f'wall={w} off={off}'

    # -- field access ----------------------------------------------------------
    def _split(self):
        if self._ord is not None:
            return self._ord, self.wall - self._ord * DAY
        o, tod = sx_divmod(self.wall, DAY)
        self._ord = o
        return o, tod

    def _hmsu(self):
        if self._f is not None:
            return self._f
        _, tod = self._split()
        s, u = sx_divmod(tod, US)
        h, s = sx_divmod(s, 3600)
        mi, s = sx_divmod(s, 60)
        self._f = (h, mi, s, u)
        return self._f

    def ymd(self):
        if self._ymd is None:
            self._ymd = ordinal_to_ymd(self._split()[0])
        return self._ymd

    year = property(lambda self: self.ymd()[0])
    month = property(lambda self: self.ymd()[1])
    day = property(lambda self: self.ymd()[2])
    hour = property(lambda self: self._hmsu()[0])
    minute = property(lambda self: self._hmsu()[1])
    second = property(lambda self: self._hmsu()[2])
    microsecond = property(lambda self: self._hmsu()[3])

    def utc_us(self):
        return self.wall - _off_us(self.tzinfo, self)

    def utcoffset(self):
        if self.tzinfo is None:
            return None
        return self.tzinfo.utcoffset(self)

    def toordinal(self):
        return self._split()[0]

    def replace(self, year=None, month=None, day=None, hour=None, minute=None, second=None,
                microsecond=None, tzinfo=True, **kw):
        if (year is None and month is None and day is None and hour is None and minute is None
                and second is None and microsecond is not None and self._f is None):
            # only the microsecond changes: one division by 10**6 suffices
            if not (0 <= microsecond) or not (microsecond < US):
                raise ValueError('microsecond must be in 0..999999')
            whole, _ = sx_divmod(self.wall, US)
            tz = self.tzinfo if tzinfo is True else tzinfo
            return mk_dt(whole * US + microsecond, tz)
        o, tod = self._split()
        ymd = self._ymd
        hmsu = self._f
        if year is not None or month is not None or day is not None:
            y, m, d = self.ymd()
            y = y if year is None else year
            m = m if month is None else month
            d = d if day is None else day
            ok = days_in_month_ok(y, m, d)
            if not ok:
                raise ValueError('day is out of range for month')
            ymd = (y, m, d)
            o = ymd_to_ordinal(y, m, d)
        if hour is not None or minute is not None or second is not None or microsecond is not None:
            if hour is not None and minute is not None and second is not None and microsecond is not None:
                h, mi, s, u = hour, minute, second, microsecond
            else:
                h0, mi0, s0, u0 = self._hmsu()
                h = h0 if hour is None else hour
                mi = mi0 if minute is None else minute
                s = s0 if second is None else second
                u = u0 if microsecond is None else microsecond
            for v, lim, nm in ((h, 24, 'hour'), (mi, 60, 'minute'), (s, 60, 'second'), (u, US, 'microsecond')):
                if not (0 <= v) or not (v < lim):
                    raise ValueError(f'{nm} must be in 0..{lim - 1}')
            tod = ((h * 60 + mi) * 60 + s) * US + u
            hmsu = (h, mi, s, u)
        tz = self.tzinfo if tzinfo is True else tzinfo
        wall = o * DAY + tod
        if isinstance(wall, int) and not isinstance(tz, SymTz):
            return wall_to_real(wall, tz)
        return SymDatetime(wall, tz, ymd, o, hmsu)

    # -- arithmetic ------------------------------------------------------------
    def __add__(self, o):
        if isinstance(o, (SymTimedelta, _dt.timedelta)):
            return mk_dt(self.wall + td_us(o), self.tzinfo)
        return NotImplemented

    __radd__ = __add__

    def __sub__(self, o):
        if isinstance(o, (SymTimedelta, _dt.timedelta)):
            return mk_dt(self.wall - td_us(o), self.tzinfo)
        if isinstance(o, (SymDatetime, _dt.datetime)):
            o = as_symdt(o)
            if (self.tzinfo is None) != (o.tzinfo is None):
                raise TypeError("can't subtract offset-naive and offset-aware datetimes")
            return mk_td(self.utc_us() - o.utc_us())
        return NotImplemented

    def __rsub__(self, o):
        if isinstance(o, _dt.datetime):
            return as_symdt(o) - self
        return NotImplemented

    def _cmp(self, o, op):
        if isinstance(o, (SymDatetime, _dt.datetime)):
            o = as_symdt(o)
            if (self.tzinfo is None) != (o.tzinfo is None):
                if op in ('__eq__', '__ne__'):
                    return op == '__ne__'
                raise TypeError("can't compare offset-naive and offset-aware datetimes")
            a, b = self.utc_us(), o.utc_us()
            if isinstance(a, int):
                a, b, op = b, a, {'__lt__': '__gt__', '__gt__': '__lt__', '__le__': '__ge__',
                                  '__ge__': '__le__', '__eq__': '__eq__', '__ne__': '__ne__'}[op]
            if isinstance(a, int):
                return getattr(a, op)(b)
            return getattr(a, op)(b)
        return NotImplemented

    def __lt__(self, o):
        return self._cmp(o, '__lt__')

    def __le__(self, o):
        return self._cmp(o, '__le__')

    def __gt__(self, o):
        return self._cmp(o, '__gt__')

    def __ge__(self, o):
        return self._cmp(o, '__ge__')

    def __eq__(self, o):
        r = self._cmp(o, '__eq__')
        return False if r is NotImplemented else r

    def __ne__(self, o):
        r = self._cmp(o, '__ne__')
        return True if r is NotImplemented else r

    def __hash__(self):
        # a constant hash keeps set/dict membership tests against other kinds of values (strings)
        # from concretising the instant; equal datetimes still hash equally
        return 0x5D7

    def concrete(self):
        w = self.wall.concrete('datetime') if isinstance(self.wall, SymInt) else self.wall
        tz = self.tzinfo
        if isinstance(tz, SymTz):
            mins = tz.minutes.concrete('utc offset') if isinstance(tz.minutes, SymInt) else tz.minutes
            tz = _dt.timezone(_dt.timedelta(minutes=mins))
        return wall_to_real(w, tz)

    # -- conversions -------------------------------------------------------------
    def timestamp(self):
        if self.tzinfo is None:
            raise Unsupported('timestamp() of a naive symbolic datetime')
        us = self.utc_us() - EPOCH_US
        return floats.SymFloat(0, 1)._round_result(us, US, Fraction(0), True)

    def isoformat(self, sep='T', timespec='auto'):
        y, m, d = self.ymd()
        h, mi, s, u = self._hmsu()
        out = [text.padded(y, 4), '-', text.padded(m, 2), '-', text.padded(d, 2), sep,
               text.padded(h, 2), ':', text.padded(mi, 2), ':', text.padded(s, 2)]
        if timespec != 'auto':
            raise Unsupported('isoformat(timespec)')
        if u != 0:
            out += ['.', text.padded(u, 6)]
        if self.tzinfo is not None:
            off = _off_us(self.tzinfo, self)
            if off == 0:
                # concrete text, so that literal patterns such as '[+-]00:00$' see real digits
                out.append('+00:00')
                return ''.join(out)
            if off < 0:
                sign, off = '-', -off
            else:
                sign = '+'
            mins, rest = sx_divmod(off, 60 * US)
            oh, om = sx_divmod(mins, 60)
            out += [sign, text.padded(oh, 2), ':', text.padded(om, 2)]
            if rest != 0:
                sec, us = sx_divmod(rest, US)
                out += [':', text.padded(sec, 2)]
                if us != 0:
                    out += ['.', text.padded(us, 6)]
        return ''.join(out)

    def __str__(self):
        return self.isoformat(sep=' ')

    def __format__(self, spec):
        if spec:
            raise Unsupported('format() of a symbolic datetime with a spec')
        return str(self)

    def strftime(self, fmt):
        """numeric directives stay symbolic (padded tokens); names fork over their 7 / 12 values"""
        out = []
        i = 0
        while i < len(fmt):
            ch = fmt[i]
            if ch != '%' or i + 1 >= len(fmt):
                out.append(ch)
                i += 1
                continue
            d = fmt[i + 1]
            i += 2
            if d == '%':
                out.append('%')
            elif d == 'Y':
                out.append(text.padded(self.year, 4))
            elif d == 'm':
                out.append(text.padded(self.month, 2))
            elif d == 'd':
                out.append(text.padded(self.day, 2))
            elif d == 'H':
                out.append(text.padded(self.hour, 2))
            elif d == 'M':
                out.append(text.padded(self.minute, 2))
            elif d == 'S':
                out.append(text.padded(self.second, 2))
            elif d == 'f':
                out.append(text.padded(self.microsecond, 6))
            elif d == 'a':
                if _sym(self.wall):
                    # over-approximation: three arbitrary letters (the name is never parsed back)
                    from . import chars
                    out.append(chars.mk([65 + 0 * 1] + chars.fresh('strftime.a', 2, 97, 122, register=False).cps))
                else:
                    out.append(self.concrete().strftime('%a'))
            elif d == 'b':
                if _sym(self.wall):
                    from . import chars
                    out.append(chars.mk([65] + chars.fresh('strftime.b', 2, 97, 122, register=False).cps))
                else:
                    out.append(self.concrete().strftime('%b'))
            elif d == 'Z':
                out.append('' if self.tzinfo is None else (self.tzinfo.tzname(None) or ''))
            else:
                return self.concrete().strftime(fmt)
        return text.sx_join('', out)

    def date(self):
        y, m, d = self.ymd()
        if _sym(y, m, d):
            raise Unsupported('date() of a symbolic datetime')
        return _dt.date(y, m, d)

    def time(self):
        return self.concrete().time()

    def astimezone(self, tz=None):
        if tz is None or self.tzinfo is None:
            raise Unsupported('astimezone without explicit zones')
        utc = self.utc_us()
        return mk_dt(utc + _off_us(tz), tz)

    def timetuple(self):
        return self.concrete().timetuple()

    def utctimetuple(self):
        return self.concrete().utctimetuple()


EPOCH_US = _dt.date(1970, 1, 1).toordinal() * DAY


def real_wall(d):
    return d.toordinal() * DAY + ((d.hour * 60 + d.minute) * 60 + d.second) * US + d.microsecond


def wall_to_real(wall, tz):
    o, tod = divmod(wall, DAY)
    d = _dt.date.fromordinal(o)
    s, u = divmod(tod, US)
    h, s = divmod(s, 3600)
    mi, s = divmod(s, 60)
    return _dt.datetime(d.year, d.month, d.day, h, mi, s, u, tzinfo=tz)


def as_symdt(d):
    if isinstance(d, SymDatetime):
        return d
    return SymDatetime(real_wall(d), d.tzinfo, (d.year, d.month, d.day))


_MIN_WALL = 1 * 86400 * 1000000
_MAX_WALL = (3652059 + 1) * 86400 * 1000000 - 1


def mk_dt(wall, tz):
    if isinstance(wall, int) and not isinstance(tz, SymTz):
        return wall_to_real(wall, tz)
    # datetime arithmetic leaves 0001-01-01 .. 9999-12-31 with OverflowError
    with core.range_check():
        bad = not (_MIN_WALL <= wall) or not (wall <= _MAX_WALL)
    if bad:
        raise OverflowError('date value out of range')
    return SymDatetime(wall, tz)


def make_datetime(year, month=None, day=None, hour=0, minute=0, second=0, microsecond=0,
                  tzinfo=None, *, fold=0):
    if not _sym(year, month, day, hour, minute, second, microsecond) and not isinstance(tzinfo, SymTz):
        return _dt.datetime(year, month, day, hour, minute, second, microsecond, tzinfo=tzinfo, fold=fold)
    if not (1 <= year) or not (year <= 9999):
        raise ValueError('year out of range')
    ok = days_in_month_ok(year, month, day)
    if not ok:
        raise ValueError('day is out of range for month')
    for v, lim, nm in ((hour, 24, 'hour'), (minute, 60, 'minute'), (second, 60, 'second'),
                       (microsecond, US, 'microsecond')):
        if not (0 <= v) or not (v < lim):
            raise ValueError(f'{nm} must be in 0..{lim - 1}')
    o = ymd_to_ordinal(year, month, day)
    wall = o * DAY + ((hour * 60 + minute) * 60 + second) * US + microsecond
    return SymDatetime(wall, tzinfo, (year, month, day), o, (hour, minute, second, microsecond))


class sx_datetime(_dt.datetime, metaclass=_Meta):
    _real = _dt.datetime
    _proxy = SymDatetime
    _root = True

    @staticmethod
    def _convert(*a, **k):
        return make_datetime(*a, **k)

    @classmethod
    def now(cls, tz=None):
        if core.active():
            hook = ctx().env.get('now')
            if hook is not None:
                return hook(tz)
        return _dt.datetime.now(tz)

    @classmethod
    def utcnow(cls):
        if core.active():
            hook = ctx().env.get('now')
            if hook is not None:
                d = hook(_dt.timezone.utc)
                return d.replace(tzinfo=None)
        return _dt.datetime.utcnow()

    @classmethod
    def fromtimestamp(cls, ts, tz=None):
        if _sym(ts):
            if tz is None:
                raise Unsupported('fromtimestamp() without tz on a symbolic value')
            if isinstance(ts, floats.SymFloat):
                us = (ts * US).round_half_even()
            else:
                us = ts * US
            return mk_dt(EPOCH_US + us + _off_us(tz), tz)
        return _dt.datetime.fromtimestamp(ts, tz)

    @classmethod
    def strptime(cls, s, fmt):
        if text.has_token(s):
            raise Unsupported('strptime on a token string')
        from .chars import SymChars
        if isinstance(s, SymChars):
            return _strptime_sym(s, fmt)
        return _dt.datetime.strptime(s, fmt)

    @classmethod
    def fromisoformat(cls, s):
        return _dt.datetime.fromisoformat(s)

    @classmethod
    def combine(cls, *a, **k):
        return _dt.datetime.combine(*a, **k)

    @classmethod
    def fromordinal(cls, n):
        return _dt.datetime.fromordinal(n)

    @classmethod
    def utcfromtimestamp(cls, ts):
        return _dt.datetime.utcfromtimestamp(ts)


def _strptime_sym(s, fmt):
    """datetime.strptime on a symbolic string: CPython's own format regex (from _strptime) matched
    by class partition, numeric directives converted by the integer model"""
    import _strptime
    import re as _re
    from . import remodel, chars
    try:
        pattern = _strptime._TimeRE_cache.pattern(fmt)
    except KeyError as e:
        raise ValueError(f'bad directive in format {fmt!r}') from e
    m = remodel.SxPattern(pattern, _re.IGNORECASE).match(s)
    if m is None:
        raise ValueError(f'time data does not match format {fmt!r}')
    if m.end() != len(s):
        raise ValueError('unconverted data remains')
    g = m.groupdict()
    if any(k not in 'YmdHMSf' for k in g):
        raise Unsupported(f'strptime directive(s) {sorted(g)} on a symbolic string')
    year = chars.parse_int(g['Y']) if 'Y' in g else 1900
    month = chars.parse_int(g['m']) if 'm' in g else 1
    day = chars.parse_int(g['d'].strip()) if 'd' in g else 1
    hour = chars.parse_int(g['H']) if 'H' in g else 0
    minute = chars.parse_int(g['M']) if 'M' in g else 0
    second = chars.parse_int(g['S']) if 'S' in g else 0
    if 'f' in g:
        raise Unsupported('strptime %f on a symbolic string')
    if not (second <= 59):
        raise ValueError('second must be in 0..59')
    return make_datetime(year, month, day, hour, minute, second)


datetime_env = EnvModule(_dt, 'datetime', datetime=sx_datetime, timedelta=sx_timedelta)
