"""Environment stand-ins substituted for imports inside instrumented modules.

Each stand-in *is* the real module for concrete arguments (attribute fallback)
and a documented model for symbolic ones.  ``logging`` is silent: message
formatting must neither fork paths nor concretise values.
"""
from __future__ import annotations

import io as _io
import logging as _logging
import math as _math
import time as _time
import types

from . import core
from .core import SymInt, SymBool, Unsupported


class EnvModule:
    def __init__(self, real, name=None, **over):
        self.__dict__['_real'] = real
        self.__dict__['_name'] = name or getattr(real, '__name__', '?')
        self.__dict__.update(over)

    def __getattr__(self, name):
        return getattr(self.__dict__['_real'], name)

    def __repr__(self):
        return f'<pysx env module {self._name}>'


# -- logging -------------------------------------------------------------------
class _NullLogger:
    def __getattr__(self, name):
        return _noop

    def isEnabledFor(self, *a):
        return False

    def getEffectiveLevel(self):
        return 100


def _noop(*a, **k):
    return None


_null_logger = _NullLogger()

logging_env = EnvModule(
    _logging, 'logging',
    debug=_noop, info=_noop, warning=_noop, error=_noop, critical=_noop,
    exception=_noop, log=_noop, warn=_noop,
    getLogger=lambda *a, **k: _null_logger,
    basicConfig=_noop,
)


# -- time ------------------------------------------------------------------------
def _time_time():
    if core.active():
        hook = core.ctx().env.get('time.time')
        if hook is not None:
            return hook()
    return _time.time()


time_env = EnvModule(_time, 'time', time=_time_time)


# -- flask -------------------------------------------------------------------------
class FakeRequest:
    def __init__(self):
        self.headers = {}
        self.args = {}
        self.form = {}
        self.cookies = {}
        self.url = 'http://unit.test/'
        self.url_root = 'http://unit.test/'
        self.host_url = 'http://unit.test/'
        self.endpoint = None
        self.method = 'GET'
        self.remote_addr = '127.0.0.1'


class FakeFlask(EnvModule):
    """``flask`` as seen by the instrumented handler modules.  request / session /
    g are plain objects chosen by the harness; make_response returns its argument."""

    def reset(self):
        self.__dict__['request'] = FakeRequest()
        self.__dict__['session'] = {}
        self.__dict__['g'] = types.SimpleNamespace()


def _make_response(*args):
    if len(args) == 1:
        return args[0]
    return args


def _url_for(endpoint, **kw):
    parts = [f'{k}={v}' for k, v in sorted(kw.items())]
    return '/' + endpoint + '?' + '&'.join(parts)


def _make_flask():
    try:
        import flask as real
    except Exception:  # pragma: no cover
        real = types.SimpleNamespace()
    ff = FakeFlask(real, 'flask', make_response=_make_response, url_for=_url_for)
    ff.reset()
    return ff


flask_env = None


def fill(ENV):
    global flask_env
    flask_env = _make_flask()
    ENV['logging'] = logging_env
    ENV['time'] = time_env
    ENV['flask'] = flask_env
    from . import mathmodel
    ENV['math'] = mathmodel.math_env
    from . import iomodel
    ENV['io'] = iomodel.io_env
    from . import remodel
    ENV['re'] = remodel.re_env
    from . import dt
    ENV['datetime'] = dt.datetime_env
    from . import structmodel
    ENV['struct'] = structmodel.struct_env
    from . import bitmodel
    ENV['bitstring'] = bitmodel.bitstring_env
    ENV['crccheck.crc'] = bitmodel.crc_env
    from . import codecmodel
    ENV['binascii'] = codecmodel.binascii_env
    ENV['base64'] = codecmodel.base64_env
    ENV['decimal'] = codecmodel.decimal_env
    from . import cryptomodel
    ENV['Crypto.Hash'] = cryptomodel.hash_env
    ENV['Crypto.Cipher'] = cryptomodel.cipher_env
    from . import urlmodel
    ENV['urllib'] = urlmodel.urllib_env
    ENV['urllib.parse'] = urlmodel.parse_env
