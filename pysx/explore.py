"""Complete, bounded path enumeration by re-execution (DESIGN.md 2.4)."""
from __future__ import annotations

import time
import traceback

import z3

from . import core
from .core import Ctx, Infeasible, Unsupported, BoundExceeded, SxAbort, Stats


class Obligation:
    """Aggregated verdict of one obligation label over all paths of a harness."""

    def __init__(self, label):
        self.label = label
        self.paths = 0          # complete paths that reached it
        self.proved = 0         # ... on which the negation was unsat
        self.candidates = []    # list of dict(model=..., path=..., detail=...)
        self.inconclusive = []  # list of reasons

    @property
    def status(self):
        if self.candidates:
            return 'candidate'
        if self.inconclusive:
            return 'inconclusive'
        if self.paths == 0:
            return 'unreached'
        return 'discharged'


class Sx:
    """Facade handed to harness functions."""

    def __init__(self, run, cx):
        self.run = run
        self.cx = cx

    # symbolic inputs
    def int(self, name, lo=None, hi=None):
        return self.cx.int(name, lo, hi)

    def bool(self, name):
        return self.cx.bool(name)

    def assume(self, cond, text=None):
        self.cx.assume(cond, text)

    def note(self, key, value):
        """attach a value (possibly symbolic) to the path record (evaluated under the model)."""
        self.cx.notes.append((key, value))

    def prove(self, cond, label, detail=None):
        """Obligation: cond must hold on this path for every model."""
        ob = self.run.obligation(label)
        ob.paths += 1
        r, m = self.cx.check_valid(cond)
        if r == 'unsat':
            ob.proved += 1
            return True
        if r == 'sat':
            cand = {
                'label': label,
                'inputs': self.run.model_inputs(self.cx, m),
                'detail': self.run.eval_detail(self.cx, m, detail),
                'decisions': len(self.cx.decisions),
            }
            if len(ob.candidates) < self.run.max_candidates:
                ob.candidates.append(cand)
            ob.n_candidates = getattr(ob, 'n_candidates', 0) + 1
            return False
        ob.inconclusive.append('solver unknown')
        return False

    def fail(self, label, detail=None):
        """Obligation violated on every model of this path (e.g. wrong exception)."""
        return self.prove(False, label, detail)

    def reach(self, label):
        """Reachability witness: counts paths that get here."""
        self.run.reached[label] = self.run.reached.get(label, 0) + 1


def cross_check(tlimit_ms=4000):
    """re-decide the sampled proven obligation queries (core.XCHECK) with cvc5"""
    res = {'queries': 0, 'agree': 0, 'disagree': 0, 'unknown': 0, 'error': 0}
    samples, core.XCHECK[:] = list(core.XCHECK), []
    if not samples:
        return res
    try:
        import cvc5
    except Exception:
        res['error'] = len(samples)
        return res
    for _size, text_ in samples:
        res['queries'] += 1
        try:
            slv = cvc5.Solver()
            slv.setOption('tlimit-per', str(tlimit_ms))
            parser = cvc5.InputParser(slv)
            parser.setStringInput(cvc5.InputLanguage.SMT_LIB_2_6, '(set-logic ALL)\n' + text_, 'xcheck')
            sm = parser.getSymbolManager()
            answer = None
            while True:
                cmd = parser.nextCommand()
                if cmd.isNull():
                    break
                out = cmd.invoke(slv, sm)
                o = str(out).strip()
                if o in ('sat', 'unsat', 'unknown'):
                    answer = o
            if answer == 'unsat':
                res['agree'] += 1
            elif answer == 'sat':
                res['disagree'] += 1
            else:
                res['unknown'] += 1
        except Exception:
            res['error'] += 1
    return res


class Run:
    """Exploration of one harness instance."""

    def __init__(self, name, fn, *, max_paths=20000, max_decisions=4000,
                 query_timeout_ms=20000, fork_limit=64, max_candidates=5,
                 time_budget_s=None, params=None):
        self.name = name
        self.fn = fn
        self.max_paths = max_paths
        self.max_decisions = max_decisions
        self.query_timeout_ms = query_timeout_ms
        self.fork_limit = fork_limit
        self.max_candidates = max_candidates
        self.time_budget_s = time_budget_s
        self.params = params or {}
        self.obligations = {}
        self.reached = {}
        self.stats = Stats()
        self.paths = 0
        self.infeasible = 0
        self.aborted = []        # (kind, message) for Unsupported / BoundExceeded paths
        self.errors = []         # engine errors (tracebacks)
        self.samples = []
        self.assumptions = []
        self.complete = True
        self.wall_s = 0.0
        self.path_models = []    # a few (inputs) for concolic self-check

    def obligation(self, label):
        ob = self.obligations.get(label)
        if ob is None:
            ob = self.obligations[label] = Obligation(label)
        return ob

    def model_inputs(self, cx, m):
        out = {}
        if m is None:
            return out
        for name, t in cx.inputs.items():
            v = m.eval(t, model_completion=True)
            out[name] = _pyval(v)
        return out

    def eval_detail(self, cx, m, detail):
        if detail is None:
            return None
        return eval_under(m, detail)

    def explore(self):
        t0 = time.perf_counter()
        work = [[]]
        while work:
            if self.paths + self.infeasible >= self.max_paths:
                self.complete = False
                self.aborted.append(('BoundExceeded', f'path cap {self.max_paths} reached'))
                break
            if self.time_budget_s and time.perf_counter() - t0 > self.time_budget_s:
                self.complete = False
                self.aborted.append(('BoundExceeded', f'time budget {self.time_budget_s}s reached'))
                break
            prefix = work.pop()
            cx = Ctx(prefix, query_timeout_ms=self.query_timeout_ms,
                     max_decisions=self.max_decisions, fork_limit=self.fork_limit)
            core.set_ctx(cx)
            sx = Sx(self, cx)
            try:
                self.fn(sx, **self.params)
                self.paths += 1
                self._sample(cx)
            except Infeasible:
                self.infeasible += 1
            except (Unsupported, BoundExceeded) as e:
                self.paths += 1
                self.complete = False
                tb = traceback.extract_tb(e.__traceback__)
                where = ''
                for fr in reversed(tb):
                    if '/pysx/' not in fr.filename:
                        where = f'{fr.filename}:{fr.lineno}'
                        break
                self.aborted.append((type(e).__name__, f'{e} @ {where}'))
                # every obligation of this harness becomes inconclusive
            except SxAbort as e:
                self.errors.append(f'{type(e).__name__}: {e}')
            except Exception as e:  # harness/engine error: machinery failure
                self.errors.append(''.join(traceback.format_exception(type(e), e, e.__traceback__)))
                self.paths += 1
            finally:
                core.set_ctx(None)
            for a in cx.assumptions_text:
                if a not in self.assumptions:
                    self.assumptions.append(a)
            self.stats.add(cx.stats)
            work.extend(cx.pending)
            if len(self.errors) > 3:
                break
        self.wall_s = time.perf_counter() - t0
        self.xcheck = cross_check()
        if self.xcheck.get('disagree'):
            self.errors.append(f"second solver disagrees on {self.xcheck['disagree']} proven obligation quer(y/ies): cvc5 says sat/unknown-with-model where z3 said unsat")
        if self.aborted:
            for ob in self.obligations.values():
                ob.inconclusive.append(f'{len(self.aborted)} path(s) aborted: {self.aborted[0][0]}: {self.aborted[0][1]}')
        return self

    def _sample(self, cx):
        if len(self.samples) >= 3 and len(self.path_models) >= 8:
            return
        try:
            if cx.model is None:
                r = cx._check()
                if r != 'sat':
                    return
            m = cx.model
            rec = {'inputs': self.model_inputs(cx, m),
                   'decisions': len(cx.decisions)}
            if cx.env.get('float_uncertain'):
                rec['float_uncertain'] = cx.env['float_uncertain']
            for k, v in cx.notes:
                rec[k] = eval_under(m, v)
            if len(self.samples) < 3:
                self.samples.append(rec)
            self.path_models.append(rec)
        except Exception:
            pass


def _pyval(v):
    if z3.is_int_value(v):
        return v.as_long()
    if z3.is_true(v):
        return True
    if z3.is_false(v):
        return False
    if z3.is_rational_value(v):
        return f'{v.numerator_as_long()}/{v.denominator_as_long()}'
    if z3.is_algebraic_value(v):
        return str(v.approx(20))
    return str(v)


def eval_under(m, v):
    """Evaluate a (nested) value containing proxies under model m -> plain Python."""
    from . import text
    if v is None or isinstance(v, (bool, int, float)):
        return v
    if isinstance(v, str):
        if m is not None and text.has_token(v):
            return text.render(v, m)
        return v
    if isinstance(v, core.SymInt):
        return _pyval(m.eval(v.t, model_completion=True)) if m is not None else repr(v)
    if isinstance(v, core.SymBool):
        return _pyval(m.eval(v.t, model_completion=True)) if m is not None else repr(v)
    import datetime as _dtm
    if isinstance(v, _dtm.datetime):
        return v.isoformat()
    if isinstance(v, _dtm.timedelta):
        return f'{(v.days * 86400 + v.seconds) * 1000000 + v.microseconds}us'
    if isinstance(v, (bytes, bytearray)):
        return bytes(v).hex()
    if isinstance(v, dict):
        return {str(k): eval_under(m, x) for k, x in v.items()}
    if isinstance(v, (list, tuple)):
        return [eval_under(m, x) for x in v]
    ev = getattr(v, '__sx_eval__', None)
    if ev is not None:
        return ev(m)
    if z3.is_expr(v):
        return _pyval(m.eval(v, model_completion=True)) if m is not None else str(v)
    return repr(v)
