"""SymFloat: IEEE-754 binary64 values derived from integers, modelled as an exact
rational  n/den  (n an Int term, den a positive constant) plus a concrete bound
``err`` on |double - n/den|  (DESIGN.md 2.2, "Rational form").

Soundness: every behaviour of the real double computation is included.  A decision
(comparison, floor, round) is taken on the exact rational when the rational is
provably off the decision boundary by more than ``err``; otherwise the outcome is
left nondeterministic through a fresh, suitably constrained solver variable
(so ``unsat`` is a proof; ``sat`` is a candidate that must replay).

``cr`` ("correctly rounded") records that the double equals RN(n/den), i.e. it is
the result of at most one rounding of an exact value; then integers below 2**53
are fixed points and equal rationals give equal doubles.
"""
from __future__ import annotations

from fractions import Fraction
from math import gcd

import z3

from . import core
from .core import SymInt, SymBool, Unsupported, ctx, INF, mk_int, mk_bool, bounds_of, term_of

U = Fraction(1, 2 ** 53)
TWO53 = 2 ** 53


def _is_pow2(n):
    return n > 0 and (n & (n - 1)) == 0


class SymFloat:
    __slots__ = ('n', 'den', 'err', 'cr', 'clamp')
    __sx_sym__ = True

    def __init__(self, n, den=1, err=Fraction(0), cr=True):
        if den <= 0:
            raise AssertionError('den must be positive')
        self.n = n
        self.den = den
        self.err = Fraction(err)
        self.cr = cr
        self.clamp = None     # (lo, hi): the true double lies in [lo, hi) whatever the error term says

    # -- helpers ---------------------------------------------------------------
    def bounds(self):
        lo, hi = bounds_of(self.n)
        flo = -INF if lo == -INF else Fraction(lo, self.den)
        fhi = INF if hi == INF else Fraction(hi, self.den)
        return flo, fhi

    def mag(self):
        lo, hi = self.bounds()
        m = max(abs(lo), abs(hi))
        if m == INF:
            raise Unsupported('float with unbounded magnitude (harness must bound its inputs)')
        return m + self.err

    def __repr__(self):
        return f'SymFloat({self.n}/{self.den} err={float(self.err):.3g} cr={self.cr})'

    def __sx_eval__(self, m):
        if isinstance(self.n, int):
            return self.n / self.den
        v = m.eval(self.n.t, model_completion=True).as_long()
        return f'{v}/{self.den}'

    def is_concrete(self):
        return isinstance(self.n, int)

    # -- arithmetic ------------------------------------------------------------
    def _round_result(self, n, den, in_err, exact_inputs):
        """Build the result of one rounding operation whose exact value is n/den."""
        g = gcd(den, _content(n))
        if g > 1:
            n = _exact_div(n, g)
            den //= g
        res = SymFloat(n, den, 0, True)
        mag = res.mag() + in_err
        if exact_inputs and _is_pow2(den) and mag * den < TWO53:
            return res
        res.err = in_err + U * mag
        res.cr = exact_inputs
        return res

    def __add__(self, o):
        o = as_float(o)
        if o is None:
            return NotImplemented
        den = self.den * o.den // gcd(self.den, o.den)
        n = self.n * (den // self.den) + o.n * (den // o.den)
        return self._round_result(n, den, self.err + o.err, self.err == 0 and o.err == 0)

    __radd__ = __add__

    def __sub__(self, o):
        if isinstance(o, (int, SymInt)) and not isinstance(o, bool):
            # x - floor(x) (and x - trunc(x) for x >= 0) is exact in IEEE arithmetic (Sterbenz)
            key = ('floorof', term_of(o).get_id() if isinstance(o, SymInt) else ('c', o))
            src = ctx().memo.get(key) if core.active() else None
            if src is not None and src[0] is self:
                rem = src[1] if src[1] is not None else self.n - o * self.den
                res = SymFloat(rem, self.den, self.err, self.err == 0)
                res.clamp = (Fraction(0), Fraction(1))
                return res
        o = as_float(o)
        if o is None:
            return NotImplemented
        return self + (-o)

    def __rsub__(self, o):
        o = as_float(o)
        if o is None:
            return NotImplemented
        return o + (-self)

    def __neg__(self):
        return SymFloat(-self.n, self.den, self.err, self.cr)

    def __pos__(self):
        return self

    def __abs__(self):
        return SymFloat(abs(self.n), self.den, self.err, self.cr)

    def __mul__(self, o):
        o = as_float(o)
        if o is None:
            return NotImplemented
        a, b = self, o
        if not a.is_concrete() and not b.is_concrete():
            # nonlinear: concretise the operand with fewer values
            lo, hi = bounds_of(b.n)
            lo2, hi2 = bounds_of(a.n)
            if hi - lo > hi2 - lo2:
                a, b = b, a
            v = b.n.concrete('factor of a float product')
            b = SymFloat(v, b.den, b.err, b.cr)
        if a.is_concrete():
            a, b = b, a
        # b concrete: value p/q
        p, q = b.n, b.den
        if p == 0:
            return SymFloat(0, 1)
        in_err = a.err * abs(Fraction(p, q)) + b.err * a.mag()
        res = self._round_result(a.n * p, a.den * q, in_err, a.err == 0 and b.err == 0)
        if a.clamp is not None and b.err == 0 and q == 1 and p > 0 and _is_pow2(p) and p < 2 ** 900:
            # scaling by a power of two is exact, so the range fact scales with it
            res.clamp = (a.clamp[0] * p, a.clamp[1] * p)
        return res

    __rmul__ = __mul__

    def __truediv__(self, o):
        o = as_float(o)
        if o is None:
            return NotImplemented
        if not o.is_concrete():
            lo, hi = bounds_of(o.n)
            if hi - lo <= ctx().fork_limit:
                v = o.n.concrete('float divisor')
                o = SymFloat(v, o.den, o.err, o.cr)
            else:
                if o == 0:
                    raise ZeroDivisionError('float division by zero')
                return OpaqueFloat('quotient by a symbolic divisor')
        p, q = o.n, o.den
        if p == 0:
            raise ZeroDivisionError('float division by zero')
        if o.err != 0:
            raise Unsupported('float division by an inexact constant')
        if p < 0:
            p, q = -p, -q
        # self / (p/q) = self.n * q / (self.den * p)
        in_err = self.err * abs(Fraction(q, p))
        return self._round_result(self.n * q, self.den * p, in_err, self.err == 0)

    def __rtruediv__(self, o):
        o = as_float(o)
        if o is None:
            return NotImplemented
        return o.__truediv__(self)

    def __floordiv__(self, o):
        o = as_float(o)
        if o is None:
            return NotImplemented
        if not o.is_concrete() or o.err != 0:
            if not o.is_concrete():
                lo, hi = bounds_of(o.n)
                if hi - lo <= ctx().fork_limit:
                    v = o.n.concrete('float divisor')
                    o = SymFloat(v, o.den, o.err, o.cr)
                else:
                    raise Unsupported('float floor-division by a symbolic value')
        p, q = o.n, o.den
        if p == 0:
            raise ZeroDivisionError('float floor division by zero')
        if p < 0:
            p, q = -p, -q
        t = SymFloat(self.n * q, self.den * p, self.err * abs(Fraction(q, p)), self.cr and p == 1 and q == 1)
        # floor(f / c) is decided on the double f: f/c is an exact integer iff f is a multiple of c
        fl = t._floor(cr_exact_on_integer=(self.cr and q == 1))
        return SymFloat(fl, 1, 0, True)

    def __rfloordiv__(self, o):
        o = as_float(o)
        if o is None:
            return NotImplemented
        return o.__floordiv__(self)

    def __mod__(self, o):
        q = self // o
        return self - q * as_float(o)

    def __divmod__(self, o):
        q = self // o
        return q, self - q * as_float(o)

    # -- integer conversions -----------------------------------------------------
    def _floor(self, cr_exact_on_integer=None):
        """floor of the double, as int / SymInt."""
        if self.is_concrete() and self.err == 0:
            return self.n // self.den
        if self.den == 1 and self.err == 0:
            return self.n
        cr = self.cr if cr_exact_on_integer is None else cr_exact_on_integer
        q, r = core.sx_divmod(self.n, self.den)
        if self.err == 0:
            return q
        band = int(self.err * self.den)  # floor(err*den)
        if band == 0 and cr and self.mag() < TWO53:
            return q
        # q + adj, adj in {-1,0,+1}: -1 only if r <= band, +1 only if r >= den - band
        cx = ctx()
        adj = z3.Int(cx.fresh_name('fladj'))
        rt = term_of(r)
        cx._assert(z3.And(adj >= -1, adj <= 1,
                          z3.Implies(adj == -1, rt <= band),
                          z3.Implies(adj == 1, rt >= self.den - band)))
        cx.env['float_uncertain'] = cx.env.get('float_uncertain', 0) + 1
        qlo, qhi = bounds_of(q)
        qlo, qhi = qlo - 1, qhi + 1
        if self.clamp is not None:
            import math
            clo, chi = math.floor(self.clamp[0]), math.ceil(self.clamp[1]) - 1
            cx._assert(z3.And(term_of(q) + adj >= clo, term_of(q) + adj <= chi))
            qlo, qhi = max(qlo, clo), min(qhi, chi)
        return mk_int(term_of(q) + adj, qlo, qhi)

    def __floor__(self):
        q = self._floor()
        if core.active():
            key = ('floorof', term_of(q).get_id() if isinstance(q, SymInt) else ('c', q))
            rem = None
            if self.err == 0 or (int(self.err * self.den) == 0 and self.cr):
                # exact floor: remainder of the integer division, with its tight interval
                rem = core.sx_divmod(self.n, self.den)[1] if self.den != 1 else 0
            ctx().memo[key] = (self, rem)
        return q

    def __ceil__(self):
        return -((-self)._floor())

    def __trunc__(self):
        lo, hi = self.bounds()
        if lo >= 0 or (self.clamp is not None and self.clamp[0] >= 0):
            return self.__floor__()
        if hi <= 0:
            return -((-self)._floor())
        if self < 0:
            return -((-self)._floor())
        return self._floor()

    def __sx_int__(self):
        return self.__trunc__()

    def __int__(self):
        v = self.__trunc__()
        if isinstance(v, SymInt):
            return v.concrete('int(float)')
        return v

    def __float__(self):
        if self.is_concrete():
            return self.n / self.den
        v = self.n.concrete('float()')
        return v / self.den

    def __sx_round__(self, ndigits=None):
        if ndigits is not None:
            raise Unsupported('round(float, ndigits) on a symbolic float')
        return self.round_half_even()

    def __round__(self, ndigits=None):
        return self.__sx_round__(ndigits)

    def round_half_even(self, extra_err=Fraction(0)):
        """round() of the double to an int (banker's rounding; exact ties and
        float-uncertain neighbourhoods of ties give either neighbour)."""
        err = self.err + extra_err
        if self.is_concrete() and err == 0:
            return round(Fraction(self.n, self.den))
        if self.den == 1 and err < Fraction(1, 2):
            return self.n
        # q = floor(x + 1/2), rem in [0, 2den)
        q, rem = core.sx_divmod(2 * self.n + self.den, 2 * self.den)
        band = int(err * 2 * self.den)
        cx = ctx()
        adj = z3.Int(cx.fresh_name('rnadj'))
        remt = term_of(rem)
        qt = term_of(q)
        cons = [adj >= -1, adj <= 1,
                z3.Implies(adj == 1, remt >= 2 * self.den - band)]
        if band == 0:
            # only the exact tie is open: half-even
            if err == 0:
                # exact: tie -> even neighbour (q or q-1)
                qq = z3.Int(cx.fresh_name('half'))
                cx._assert(z3.Or(qt == 2 * qq, qt == 2 * qq + 1))
                cons.append(z3.Implies(adj == -1, z3.And(remt == 0, qt == 2 * qq + 1)))
                cons.append(z3.Implies(z3.And(remt == 0, qt == 2 * qq + 1), adj == -1))
            else:
                cons.append(z3.Implies(adj == -1, remt == 0))
                cx.env['float_uncertain'] = cx.env.get('float_uncertain', 0) + 1
        else:
            cons.append(z3.Implies(adj == -1, remt <= band))
            cx.env['float_uncertain'] = cx.env.get('float_uncertain', 0) + 1
        cx._assert(z3.And(*cons))
        qlo, qhi = bounds_of(q)
        return mk_int(qt + adj, qlo - 1, qhi + 1)

    def is_integer(self):
        if self.den == 1:
            return True
        q, r = core.sx_divmod(self.n, self.den)
        return r == 0

    # -- comparisons ---------------------------------------------------------------
    def _cmp(self, o, op):
        o = as_float(o)
        if o is None:
            return NotImplemented
        den = self.den * o.den // gcd(self.den, o.den)
        dn = self.n * (den // self.den) - o.n * (den // o.den)   # exact (a-b)*den
        err = self.err + o.err
        band = int(err * den)
        exact_tie_equal = (self.cr or self.err == 0) and (o.cr or o.err == 0)
        if isinstance(dn, int) and band == 0 and (dn != 0 or exact_tie_equal):
            return {'lt': dn < 0, 'le': dn <= 0, 'gt': dn > 0, 'ge': dn >= 0,
                    'eq': dn == 0, 'ne': dn != 0}[op]
        if band == 0 and exact_tie_equal:
            return {'lt': dn < 0, 'le': dn <= 0, 'gt': dn > 0, 'ge': dn >= 0,
                    'eq': dn == 0, 'ne': dn != 0}[op]
        # uncertain band: sign of (fa - fb) is free when |dn| <= band
        cx = ctx()
        cx.env['float_uncertain'] = cx.env.get('float_uncertain', 0) + 1
        dlo, dhi = bounds_of(dn)
        if dlo > band:
            sgn = 1
        elif dhi < -band:
            sgn = -1
        else:
            key = ('fcmp', term_of(dn).get_id(), band)
            s = cx.memo.get(key)
            if s is None:
                s = z3.Int(cx.fresh_name('fsgn'))
                dt = term_of(dn)
                cx.keep.append(dt)
                cx._assert(z3.And(s >= -1, s <= 1,
                                  z3.Implies(dt > band, s == 1),
                                  z3.Implies(dt < -band, s == -1)))
                cx.memo[key] = s
            sgn = SymInt(s, -1, 1)
        return {'lt': sgn < 0, 'le': sgn <= 0, 'gt': sgn > 0, 'ge': sgn >= 0,
                'eq': sgn == 0, 'ne': sgn != 0}[op]

    def __lt__(self, o):
        return self._cmp(o, 'lt')

    def __le__(self, o):
        return self._cmp(o, 'le')

    def __gt__(self, o):
        return self._cmp(o, 'gt')

    def __ge__(self, o):
        return self._cmp(o, 'ge')

    def __eq__(self, o):
        if o is None:
            return False
        return self._cmp(o, 'eq')

    def __ne__(self, o):
        if o is None:
            return True
        return self._cmp(o, 'ne')

    def __bool__(self):
        r = self != 0
        return bool(r)

    def __hash__(self):
        return hash(float(self))

    def __format__(self, spec):
        return format_float(self, spec, 'f')

    def __str__(self):
        raise Unsupported('str() of a symbolic float')


class OpaqueFloat:
    """a float whose value the engine does not model (nonlinear); it may be stored and passed
    around, any decision or arithmetic on it raises Unsupported"""
    __sx_sym__ = True

    def __init__(self, why):
        self.why = why

    def _no(self, *a, **k):
        raise Unsupported(f'use of an unmodelled float ({self.why})')

    __add__ = __radd__ = __sub__ = __rsub__ = __mul__ = __rmul__ = __truediv__ = __rtruediv__ = _no
    __lt__ = __le__ = __gt__ = __ge__ = __bool__ = __int__ = __float__ = __floor__ = __ceil__ = __trunc__ = _no
    __round__ = __floordiv__ = __mod__ = __hash__ = __format__ = _no

    def __eq__(self, o):
        return o is self

    def __ne__(self, o):
        return o is not self

    def __repr__(self):
        return f'OpaqueFloat({self.why})'

    def __sx_eval__(self, m):
        return '<unmodelled float>'


def _content(n):
    """A divisor of the integer (term) n usable for reducing n/den (1 for symbolic terms
    unless it is a visible constant multiple)."""
    if isinstance(n, int):
        return abs(n)
    return 1


def _exact_div(n, g):
    if isinstance(n, int):
        return n // g
    return n


def as_float(v):
    if isinstance(v, SymFloat):
        return v
    if isinstance(v, bool):
        return SymFloat(int(v), 1)
    if isinstance(v, int):
        if abs(v) <= TWO53:
            return SymFloat(v, 1)
        f = Fraction(float(v))
        return SymFloat(f.numerator, f.denominator)
    if isinstance(v, float):
        if v != v or v in (float('inf'), float('-inf')):
            raise Unsupported('NaN/inf in symbolic float arithmetic')
        f = Fraction(v)
        return SymFloat(f.numerator, f.denominator)
    if isinstance(v, SymInt):
        return from_int(v)
    if isinstance(v, SymBool):
        return from_int(v._as_int())
    return None


def from_int(x):
    """float(x) for an int / SymInt."""
    if isinstance(x, int):
        return as_float(x)
    lo, hi = x.lo, x.hi
    m = max(abs(lo), abs(hi))
    if m == INF:
        raise Unsupported('float() of an unbounded symbolic int')
    if m <= TWO53:
        return SymFloat(x, 1, 0, True)
    return SymFloat(x, 1, U * m, True)


def parse_float(s):
    """float(text) where text embeds tokens: handles  <tok>  and  <tok>.<digits>  forms."""
    from . import text
    t = s.strip()
    sign = 1
    if t[:1] in '+-':
        if t[0] == '-':
            sign = -1
        t = t[1:]
    pieces = text.split_tokens(t)
    Tok = text.Tok
    if len(pieces) == 1 and isinstance(pieces[0], Tok):
        return from_int(pieces[0].x * sign)
    whole = None
    if pieces and isinstance(pieces[0], Tok):
        whole = pieces[0].x
        rest = pieces[1:]
    elif pieces and isinstance(pieces[0], str) and pieces[0][:-1].isdigit() and pieces[0].endswith('.') \
            and len(pieces) == 2:
        whole = int(pieces[0][:-1])
        rest = ['.'] + pieces[1:]
    if whole is not None and len(rest) == 1 and isinstance(rest[0], str) \
            and rest[0].startswith('.') and (rest[0][1:].isdigit() or rest[0] == '.'):
        digits = rest[0][1:]
        k = len(digits)
        frac = int(digits) if digits else 0
        # a decimal literal whole.frac is parsed correctly rounded
        n = whole * (10 ** k) + frac
        return SymFloat(0, 1)._round_result(n * sign, 10 ** k, Fraction(0), True)
    if whole is not None and len(rest) == 2 and rest[0] == '.' and isinstance(rest[1], Tok) \
            and rest[1].width > 0:
        k = rest[1].width
        n = whole * (10 ** k) + rest[1].x
        return SymFloat(0, 1)._round_result(n * sign, 10 ** k, Fraction(0), True)
    for p in pieces:
        if isinstance(p, str) and not all(ch.isdigit() or ch in '._eE+-' for ch in p):
            raise ValueError(f'could not convert string to float: {s!r}')
    raise Unsupported('float() of a token string of unsupported shape')


def format_float(x, flags, conv):
    raise Unsupported('formatting of a symbolic float')
