"""io stand-in: BytesIO that accepts SymBytes (concrete skeleton + symbolic overlay) and
ropes of file slices (sequential writes only); everything else is the real module."""
from __future__ import annotations

import io as _io

from . import core
from .core import SymInt, Unsupported
from .bytes_ import SymBytes
from .env import EnvModule


class BodySlice:
    """base[start:stop] with symbolic bounds, kept as a record (slice identity)"""
    __sx_sym__ = True

    def __init__(self, base, start, stop):
        self.base, self.start, self.stop = base, start, stop

    def __repr__(self):
        return f'BodySlice({len(self.base)} bytes, {self.start}, {self.stop})'

    def __sx_eval__(self, m):
        from .explore import eval_under
        return {'slice_of_len': len(self.base), 'start': eval_under(m, self.start), 'stop': eval_under(m, self.stop)}


class BodyBytes:
    """a response body: bytes whose slices with symbolic bounds are recorded instead of enumerated"""
    __sx_sym__ = True

    def __init__(self, value):
        self.value = value

    def __len__(self):
        return len(self.value)

    def __sx_len__(self):
        return len(self.value)

    def __getitem__(self, k):
        if isinstance(k, slice) and k.step is None and any(
                getattr(v, '__sx_sym__', False) for v in (k.start, k.stop)):
            return BodySlice(self.value, 0 if k.start is None else k.start,
                             len(self.value) if k.stop is None else k.stop)
        return self.value[k]

    def __sx_bytes__(self):
        return self.value

    def __eq__(self, o):
        return self.value == (o.value if isinstance(o, BodyBytes) else o)

    def __hash__(self):
        return id(self)


class SxBytesIO:
    """Seekable in-memory binary stream.  Positions are concrete (a symbolic position is
    concretised by a bounded fork)."""

    def __init__(self, initial=b''):
        self._sym = {}
        self._rope = None
        if isinstance(initial, SymBytes):
            self._buf = bytearray(initial.data)
            self._sym = dict(initial.sym)
        elif hasattr(initial, '__sx_rope__'):
            self._buf = bytearray()
            self._rope = initial
        else:
            self._buf = bytearray(initial)
        self._pos = 0
        self.closed = False

    # -- helpers
    def _c(self, n, what):
        if isinstance(n, SymInt):
            return n.concrete(what)
        return n

    def _check(self):
        if self.closed:
            raise ValueError('I/O operation on closed file.')

    def __enter__(self):
        return self

    def __exit__(self, *a):
        self.close()
        return False

    def close(self):
        self.closed = True

    def readable(self):
        return True

    def writable(self):
        return True

    def seekable(self):
        return True

    def flush(self):
        pass

    def tell(self):
        self._check()
        if self._rope is not None:
            return self._rope.__sx_len__()
        return self._pos

    def seek(self, pos, whence=0):
        self._check()
        if self._rope is not None:
            raise Unsupported('seek on a rope stream')
        if whence == 0 and not isinstance(pos, int) and getattr(pos, '__sx_sym__', False) \
                and hasattr(pos, 'lo') and pos > len(self._buf):
            # anywhere past the end behaves alike: reads return nothing, tell() reports the position
            self._pos = pos
            return pos
        pos = self._c(pos, 'BytesIO.seek position')
        if whence == 0:
            if pos < 0:
                raise ValueError(f'negative seek value {pos}')
            self._pos = pos
        elif whence == 1:
            self._pos = max(0, self._pos + pos)
        elif whence == 2:
            self._pos = max(0, len(self._buf) + pos)
        else:
            raise ValueError('invalid whence')
        return self._pos

    def read(self, n=-1):
        self._check()
        if self._rope is not None:
            raise Unsupported('read on a rope stream')
        if n is None:
            n = -1
        if not isinstance(self._pos, int):
            return b''          # symbolic position: only ever stored when it is past the end
        if not isinstance(n, int) and hasattr(n, 'lo') and (n < 0 or n >= max(0, len(self._buf) - self._pos)):
            n = -1              # any size that reaches the end reads the same bytes
        n = self._c(n, 'BytesIO.read size')
        end = len(self._buf) if n < 0 else min(len(self._buf), self._pos + n)
        start = min(self._pos, len(self._buf))
        if end < start:
            end = start
        sym = {i - start: v for i, v in self._sym.items() if start <= i < end} if self._sym else {}
        self._pos = max(self._pos, end) if n < 0 else self._pos + (end - start)
        return SymBytes.make(bytes(self._buf[start:end]), sym)

    def readinto(self, b):
        data = self.read(len(b))
        if isinstance(data, SymBytes):
            raise Unsupported('readinto() of symbolic bytes into a native buffer')
        b[:len(data)] = data
        return len(data)

    def read1(self, n=-1):
        return self.read(n)

    def peek(self, n=0):
        p = self._pos
        r = self.read(n if n > 0 else -1)
        self._pos = p
        return r

    def write(self, b):
        self._check()
        if hasattr(b, '__sx_rope__'):
            if self._buf or self._sym:
                raise Unsupported('mixing rope and byte writes')
            self._rope = b if self._rope is None else self._rope.concat(b)
            return b.__sx_len__()
        if self._rope is not None:
            if isinstance(b, (bytes, str)) and len(b) == 0:
                return 0
            raise Unsupported('mixing rope and byte writes')
        if isinstance(b, str):
            raise TypeError("a bytes-like object is required, not 'str'")
        n = len(b)
        pos = self._pos
        if pos > len(self._buf):
            self._buf.extend(b'\0' * (pos - len(self._buf)))
        if isinstance(b, SymBytes):
            self._buf[pos:pos + n] = b.data
            for i in [i for i in self._sym if pos <= i < pos + n]:
                del self._sym[i]
            for i, v in b.sym.items():
                self._sym[pos + i] = v
        else:
            self._buf[pos:pos + n] = bytes(b)
            if self._sym:
                for i in [i for i in self._sym if pos <= i < pos + n]:
                    del self._sym[i]
        self._pos = pos + n
        return n

    def getvalue(self):
        self._check()
        if self._rope is not None:
            return self._rope
        v = SymBytes.make(bytes(self._buf), dict(self._sym))
        if core.active() and core.ctx().env.get('body_slices'):
            return BodyBytes(v)
        return v

    def getbuffer(self):
        return self.getvalue()

    def truncate(self, size=None):
        size = self._pos if size is None else self._c(size, 'truncate')
        del self._buf[size:]
        for i in [i for i in self._sym if i >= size]:
            del self._sym[i]
        return size


class SxBufferedReader:
    """pure-Python stand-in for io.BufferedReader (usable as a base class): delegates to raw."""

    def __init__(self, raw, buffer_size=8192):
        self.raw = raw

    @property
    def closed(self):
        return getattr(self.raw, 'closed', False)

    def readable(self):
        return True

    def seekable(self):
        return True

    def tell(self):
        return self.raw.tell()

    def seek(self, pos, whence=0):
        return self.raw.seek(pos, whence)

    def read(self, n=-1):
        if n is None:
            n = -1
        return self.raw.read(n)

    def read1(self, n=-1):
        return self.raw.read(n)

    def peek(self, n=0):
        if hasattr(self.raw, 'peek'):
            return self.raw.peek(n)
        p = self.raw.tell()
        r = self.raw.read(n if n and n > 0 else 8192)
        self.raw.seek(p)
        return r

    def close(self):
        if hasattr(self.raw, 'close'):
            self.raw.close()

    def __enter__(self):
        return self

    def __exit__(self, *a):
        self.close()
        return False

    def detach(self):
        return self.raw


class _BufferedReaderMeta(type):
    def __instancecheck__(cls, obj):
        return isinstance(obj, _io.BufferedReader) or type.__instancecheck__(cls, obj)


class BufferedReader(SxBufferedReader, metaclass=_BufferedReaderMeta):
    pass


class _BytesIOMeta(type):
    def __instancecheck__(cls, obj):
        return isinstance(obj, (_io.BytesIO, SxBytesIO))


class BytesIO(metaclass=_BytesIOMeta):
    def __new__(cls, initial=b''):
        return SxBytesIO(initial)


io_env = EnvModule(_io, 'io', BytesIO=BytesIO, BufferedReader=BufferedReader)
