"""Import hook that serves dash-live modules from /repo's working tree with
(i) shadow builtins pre-seeded, (ii) literal-receiver operations rewritten,
(iii) imports of environment modules redirected to symbolic-aware stand-ins.
Nothing is cached: the source is re-read and re-compiled on every run.
"""
from __future__ import annotations

import __future__
import ast
import importlib.abc
import importlib.machinery
import os
import sys

from .shadow import SHADOW_BUILTINS

REPO = os.environ.get('DASHLIVE_REPO', '/repo')
STUBS = os.path.join(os.path.dirname(os.path.dirname(os.path.abspath(__file__))), 'stubs')

ALLOW = (
    'dashlive.utils', 'dashlive.mpeg', 'dashlive.scte35', 'dashlive.drm',
    'dashlive.server.options', 'dashlive.server.events',
    'dashlive.server.template_tags',
    'dashlive.server.requesthandler.base',
    'dashlive.server.requesthandler.media_requests',
    'dashlive.server.requesthandler.manifest_context',
    'dashlive.server.requesthandler.manifest_requests',
    'dashlive.server.requesthandler.drm_context',
    'dashlive.server.requesthandler.time_source_context',
    'dashlive.server.requesthandler.clearkey',
    'dashlive.server.requesthandler.utctime',
)
DENY = ('dashlive.mpeg.dash.validator',)

ENV = {}          # module name -> stand-in object (filled by pysx.env)
LOADED = []       # names of modules served through the hook
FUNCS_ENTERED = set()


def allowed(name):
    if any(name == d or name.startswith(d + '.') for d in DENY):
        return False
    return any(name == a or name.startswith(a + '.') for a in ALLOW)


class Tx(ast.NodeTransformer):
    def visit_BinOp(self, node):
        self.generic_visit(node)
        if isinstance(node.op, ast.Mod) and isinstance(node.left, ast.Constant) \
                and isinstance(node.left.value, str):
            return ast.copy_location(ast.Call(
                func=ast.Name(id='__sx_mod__', ctx=ast.Load()),
                args=[node.left, node.right], keywords=[]), node)
        return node

    def visit_Call(self, node):
        self.generic_visit(node)
        f = node.func
        if isinstance(f, ast.Attribute) and f.attr == 'join' and isinstance(f.value, ast.Constant) \
                and isinstance(f.value.value, (str, bytes)) and len(node.args) == 1 and not node.keywords:
            return ast.copy_location(ast.Call(
                func=ast.Name(id='__sx_join__', ctx=ast.Load()),
                args=[f.value, node.args[0]], keywords=[]), node)
        return node

    def visit_Compare(self, node):
        """x in c / x not in c: membership of a *symbolic* x in a set / dict goes through ==
        (hashing would concretise x); everything else is the ordinary operator"""
        self.generic_visit(node)
        if len(node.ops) == 1 and isinstance(node.ops[0], (ast.In, ast.NotIn)):
            right = node.comparators[0]
            if isinstance(right, ast.Set) and all(isinstance(e, ast.Constant) for e in right.elts):
                right = ast.Tuple(elts=list(right.elts), ctx=ast.Load())
            call = ast.Call(func=ast.Name(id='__sx_in__', ctx=ast.Load()), args=[node.left, right], keywords=[])
            if isinstance(node.ops[0], ast.NotIn):
                call = ast.UnaryOp(op=ast.Not(), operand=call)
            return ast.copy_location(call, node)
        return node

    def visit_While(self, node):
        """every iteration of a while loop ticks a per-path counter: a loop that makes no solver
        decision (all values concrete) would otherwise never hit the unwinding bound"""
        self.generic_visit(node)
        tick = ast.Expr(value=ast.Call(func=ast.Name(id='__sx_tick__', ctx=ast.Load()), args=[], keywords=[]))
        node.body = [ast.copy_location(tick, node)] + node.body
        return node

    def visit_JoinedStr(self, node):
        """f'...{x}...' -> __sx_fstr__('...', (x, conv, spec), ...) so that symbolic strings survive"""
        self.generic_visit(node)
        args = []
        for v in node.values:
            if isinstance(v, ast.Constant):
                args.append(v)
            elif isinstance(v, ast.FormattedValue):
                spec = v.format_spec if v.format_spec is not None else ast.Constant(value='')
                if isinstance(spec, ast.JoinedStr):
                    spec = self.visit_JoinedStr(spec) if any(isinstance(x, ast.FormattedValue) for x in spec.values) \
                        else ast.Constant(value=''.join(x.value for x in spec.values))
                args.append(ast.Tuple(elts=[v.value, ast.Constant(value=v.conversion), spec], ctx=ast.Load()))
            else:
                return node
        return ast.copy_location(ast.Call(func=ast.Name(id='__sx_fstr__', ctx=ast.Load()), args=args, keywords=[]), node)

    def _env_get(self, mod, node):
        return ast.copy_location(ast.Subscript(
            value=ast.Name(id='__sx_env__', ctx=ast.Load()),
            slice=ast.Constant(value=mod), ctx=ast.Load()), node)

    def visit_Import(self, node):
        out = []
        for alias in node.names:
            top = alias.name.split('.')[0]
            if alias.asname is None and top in ENV:
                out.append(ast.copy_location(ast.Assign(
                    targets=[ast.Name(id=top, ctx=ast.Store())],
                    value=self._env_get(top, node)), node))
            elif alias.asname is not None and alias.name in ENV:
                out.append(ast.copy_location(ast.Assign(
                    targets=[ast.Name(id=alias.asname, ctx=ast.Store())],
                    value=self._env_get(alias.name, node)), node))
            else:
                out.append(ast.copy_location(ast.Import(names=[alias]), node))
        return out

    def visit_ImportFrom(self, node):
        if node.level == 0 and node.module in ENV:
            out = []
            for alias in node.names:
                out.append(ast.copy_location(ast.Assign(
                    targets=[ast.Name(id=alias.asname or alias.name, ctx=ast.Store())],
                    value=ast.Attribute(value=self._env_get(node.module, node),
                                        attr=alias.name, ctx=ast.Load())), node))
            return out
        return node


class Loader(importlib.machinery.SourceFileLoader):
    def source_to_code(self, data, path, *, _optimize=-1):
        tree = ast.parse(data, path)
        tree = Tx().visit(tree)
        ast.fix_missing_locations(tree)
        return compile(tree, path, 'exec', dont_inherit=True,
                       flags=__future__.annotations.compiler_flag)

    def get_code(self, fullname):
        path = self.get_filename(fullname)
        return self.source_to_code(self.get_data(path), path)

    def exec_module(self, module):
        module.__dict__.update(SHADOW_BUILTINS)
        module.__dict__['__sx_env__'] = ENV
        LOADED.append(module.__name__)
        super().exec_module(module)


class Finder(importlib.abc.MetaPathFinder):
    def find_spec(self, name, path, target=None):
        if not allowed(name):
            return None
        spec = importlib.machinery.PathFinder.find_spec(name, path)
        if spec is not None and spec.origin and spec.origin.endswith('.py'):
            spec.loader = Loader(name, spec.origin)
            spec.cached = None
        return spec


_installed = False


def install():
    """Install the hook (idempotent).  Must run before any dashlive import."""
    global _installed
    if _installed:
        return
    from . import env
    env.fill(ENV)
    for p in (STUBS, REPO):
        if p not in sys.path:
            sys.path.insert(0, p)
    stale = [m for m in sys.modules if m == 'dashlive' or m.startswith('dashlive.')]
    for m in stale:
        del sys.modules[m]
    sys.meta_path.insert(0, Finder())
    sys.dont_write_bytecode = True
    _installed = True


def source_files():
    """Files of the modules that were served instrumented (for evidence)."""
    out = []
    for name in LOADED:
        m = sys.modules.get(name)
        f = getattr(m, '__file__', None)
        if f:
            out.append(os.path.relpath(f, REPO))
    return sorted(set(out))
