"""math stand-in: floor/ceil/trunc/modf/fabs accept proxies; everything else is the real module."""
from __future__ import annotations

import math as _math

from .core import SymInt, SymBool, Unsupported
from .env import EnvModule
from . import floats


def _floor(x):
    if isinstance(x, (SymInt, SymBool)):
        return x
    if isinstance(x, floats.SymFloat):
        return x.__floor__()
    return _math.floor(x)


def _ceil(x):
    if isinstance(x, (SymInt, SymBool)):
        return x
    if isinstance(x, floats.SymFloat):
        return x.__ceil__()
    return _math.ceil(x)


def _trunc(x):
    if isinstance(x, (SymInt, SymBool)):
        return x
    if isinstance(x, floats.SymFloat):
        return x.__trunc__()
    return _math.trunc(x)


def _fabs(x):
    if isinstance(x, (SymInt, SymBool, floats.SymFloat)):
        return abs(floats.as_float(x))
    return _math.fabs(x)


def _modf(x):
    if isinstance(x, (SymInt, SymBool)):
        return floats.SymFloat(0, 1), floats.from_int(x)
    if isinstance(x, floats.SymFloat):
        w = x.__trunc__()
        wf = floats.as_float(w)
        return x - wf, wf
    return _math.modf(x)


def _isnan(x):
    if isinstance(x, (SymInt, SymBool, floats.SymFloat)):
        return False
    return _math.isnan(x)


def _isinf(x):
    if isinstance(x, (SymInt, SymBool, floats.SymFloat)):
        return False
    return _math.isinf(x)


math_env = EnvModule(_math, 'math', floor=_floor, ceil=_ceil, trunc=_trunc, fabs=_fabs,
                     modf=_modf, isnan=_isnan, isinf=_isinf)
