"""re stand-in: patterns from the repository are compiled so that ``\\d`` (and ``[\\d.]``)
also match an integer token of a token string (text.py).  Matching itself is the real
``re`` engine on real strings."""
from __future__ import annotations

import re as _re

from .env import EnvModule
from . import text

_TOK = '(?:' + text.TOKEN_PAT + ')'


def _rewrite(pattern):
    if not isinstance(pattern, str):
        return pattern
    out = []
    i = 0
    n = len(pattern)
    while i < n:
        ch = pattern[i]
        if ch == '\\' and i + 1 < n:
            if pattern[i + 1] == 'd':
                out.append('(?:\\d|' + _TOK + ')')
            else:
                out.append(pattern[i:i + 2])
            i += 2
            continue
        if ch == '[':
            j = i + 1
            if j < n and pattern[j] == '^':
                j += 1
            if j < n and pattern[j] == ']':
                j += 1
            while j < n and pattern[j] != ']':
                if pattern[j] == '\\':
                    j += 1
                j += 1
            cls = pattern[i:j + 1]
            if '\\d' in cls and not cls.startswith('[^'):
                out.append('(?:' + cls + '|' + _TOK + ')')
            else:
                out.append(cls)
            i = j + 1
            continue
        out.append(ch)
        i += 1
    return ''.join(out)


_cache = {}


class SxMatch:
    """match object over a symbolic string: spans come from a class representative, groups are
    slices of the original SymChars"""

    def __init__(self, m, subject):
        self._m = m
        self._s = subject
        self.re = m.re
        self.string = subject

    def _slice(self, a, b):
        if a < 0:
            return None
        return self._s[a:b]

    def group(self, *idx):
        if not idx:
            idx = (0,)
        out = [self._slice(*self._m.span(i)) for i in idx]
        return out[0] if len(out) == 1 else tuple(out)

    def groups(self, default=None):
        return tuple((self._slice(*self._m.span(i + 1)) if self._m.span(i + 1)[0] >= 0 else default)
                     for i in range(self._m.re.groups))

    def groupdict(self, default=None):
        return {name: (self._slice(*self._m.span(name)) if self._m.span(name)[0] >= 0 else default)
                for name in self._m.re.groupindex}

    def span(self, g=0):
        return self._m.span(g)

    def start(self, g=0):
        return self._m.start(g)

    def end(self, g=0):
        return self._m.end(g)

    def __getitem__(self, g):
        return self.group(g)

    def __bool__(self):
        return True


def _distinguished(pattern_text, flags):
    """characters the pattern can tell apart individually"""
    out = set()
    i = 0
    n = len(pattern_text)
    while i < n:
        ch = pattern_text[i]
        if ch == '\\' and i + 1 < n:
            nx = pattern_text[i + 1]
            if nx not in 'dDwWsSbBAZ' and not nx.isdigit():
                out.add(nx)
            i += 2
            continue
        if ch == '(' and pattern_text[i:i + 3] == '(?P' and '>' in pattern_text[i:]:
            i = pattern_text.index('>', i) + 1
            continue
        if ch == '(' and pattern_text[i:i + 2] == '(?':
            i += 3
            continue
        if ch in '()[]{}|*+?.^$':
            if ch == '[':
                # expand small ranges a-f
                j = pattern_text.find(']', i + 2)
                body = pattern_text[i + 1:j] if j > 0 else ''
                k = 0
                while k < len(body):
                    if k + 2 < len(body) and body[k + 1] == '-' and body[k] != '\\':
                        lo, hi = ord(body[k]), ord(body[k + 2])
                        if 0 < hi - lo <= 64:
                            out.update(chr(c) for c in range(lo, hi + 1))
                        k += 3
                        continue
                    if body[k] == '\\':
                        k += 2
                        continue
                    out.add(body[k])
                    k += 1
                i = (j + 1) if j > 0 else i + 1
                continue
            i += 1
            continue
        out.add(ch)
        i += 1
    if flags & _re.IGNORECASE:
        out |= {c.upper() for c in out} | {c.lower() for c in out}
    return out


def _representatives(subject, dist):
    """fork every symbolic character over the classes the pattern can distinguish; returns a
    concrete representative string of the same length"""
    from .chars import SymChars
    from .core import sx_and
    rep = []
    digits_free = [c for c in '0123456789' if c not in dist]
    lowers_free = [c for c in 'qzxjkvw' if c not in dist]
    uppers_free = [c for c in 'QZXJKVW' if c not in dist]
    for c in subject.cps:
        if isinstance(c, int):
            rep.append(chr(c))
            continue
        chosen = None
        for d in sorted(dist):
            if c.lo <= ord(d) <= c.hi and c == ord(d):
                chosen = d
                break
        if chosen is None:
            if digits_free and sx_and(c >= 48, c <= 57):
                chosen = digits_free[0]
            elif lowers_free and sx_and(c >= 97, c <= 122):
                chosen = lowers_free[0]
            elif uppers_free and sx_and(c >= 65, c <= 90):
                chosen = uppers_free[0]
            elif c == 95:
                chosen = '_'
            elif c == 32:
                chosen = ' '
            elif sx_and(c >= 9, c <= 13):
                chosen = '\t'
            elif c < 128:
                # some other ASCII punctuation / control character not named by the pattern
                chosen = next((p for p in '~`!@#%&;<>,"\'' if p not in dist), '\x01')
                if c < 32:
                    chosen = '\x01'
            else:
                chosen = '\u00e9' if c < 0x370 else '\u4e2d'
        rep.append(chosen)
    return ''.join(rep)


class SxPattern:
    def __init__(self, pattern_text, flags):
        self.pattern = pattern_text
        self.flags = flags
        self._p = _re.compile(_rewrite(pattern_text), flags)
        self.groups = self._p.groups
        self.groupindex = self._p.groupindex
        self._dist = None

    def _sym(self, s):
        from .chars import SymChars
        return isinstance(s, SymChars)

    def _run(self, name, s, *a):
        if not self._sym(s):
            return getattr(self._p, name)(s, *a)
        if self._dist is None:
            self._dist = _distinguished(self.pattern, self.flags)
        rep = _representatives(s, self._dist)
        m = getattr(self._p, name)(rep, *a)
        return SxMatch(m, s) if m is not None else None

    def match(self, s, *a):
        return self._run('match', s, *a)

    def search(self, s, *a):
        return self._run('search', s, *a)

    def fullmatch(self, s, *a):
        return self._run('fullmatch', s, *a)

    def sub(self, repl, s, count=0):
        if self._sym(s):
            from .core import Unsupported
            from . import chars
            if not callable(repl) and '\\' in repl:
                raise Unsupported('re.sub with group references on a symbolic string')
            if self._dist is None:
                self._dist = _distinguished(self.pattern, self.flags)
            rep = _representatives(s, self._dist)
            out, pos, n = [], 0, 0
            for m in self._p.finditer(rep):
                if count and n >= count:
                    break
                out += s.cps[pos:m.start()]
                r = repl(SxMatch(m, s)) if callable(repl) else repl
                out += chars.as_cps(r)
                pos = m.end()
                n += 1
            out += s.cps[pos:]
            return chars.mk(out)
        return self._p.sub(repl, s, count)

    def subn(self, repl, s, count=0):
        return self._p.subn(repl, s, count)

    def split(self, s, maxsplit=0):
        return self._p.split(s, maxsplit)

    def findall(self, s, *a):
        return self._p.findall(s, *a)

    def finditer(self, s, *a):
        return self._p.finditer(s, *a)

    def __getattr__(self, name):
        return getattr(self._p, name)


def _compile(pattern, flags=0):
    if isinstance(pattern, (_re.Pattern, SxPattern)):
        return pattern
    key = (pattern, flags)
    p = _cache.get(key)
    if p is None:
        p = _cache[key] = SxPattern(pattern, flags) if isinstance(pattern, str) else _re.compile(pattern, flags)
    return p


_NARGS = {'match': 1, 'search': 1, 'fullmatch': 1, 'findall': 1, 'finditer': 1,
          'sub': 3, 'subn': 3, 'split': 2}


def _wrap(name):
    nargs = _NARGS[name]

    def fn(pattern, *a, **k):
        flags = k.pop('flags', 0)
        if len(a) > nargs:
            flags = a[nargs]
            a = a[:nargs]
        return getattr(_compile(pattern, flags), name)(*a, **k)
    return fn


re_env = EnvModule(_re, 're', compile=_compile, match=_wrap('match'), search=_wrap('search'),
                   fullmatch=_wrap('fullmatch'), sub=_wrap('sub'), split=_wrap('split'),
                   findall=_wrap('findall'), finditer=_wrap('finditer'), subn=_wrap('subn'))
