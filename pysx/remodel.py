"""re stand-in: patterns from the repository are compiled so that ``\\d`` (and ``[\\d.]``)
also match an integer token of a token string (text.py).  Matching itself is the real
``re`` engine on real strings."""
from __future__ import annotations

import re as _re

from .env import EnvModule
from . import text

_TOK = '(?:' + text.TOKEN_PAT + ')'


def _rewrite(pattern):
    if not isinstance(pattern, str):
        return pattern
    out = []
    i = 0
    n = len(pattern)
    while i < n:
        ch = pattern[i]
        if ch == '\\' and i + 1 < n:
            if pattern[i + 1] == 'd':
                out.append('(?:\\d|' + _TOK + ')')
            else:
                out.append(pattern[i:i + 2])
            i += 2
            continue
        if ch == '[':
            j = i + 1
            if j < n and pattern[j] == '^':
                j += 1
            if j < n and pattern[j] == ']':
                j += 1
            while j < n and pattern[j] != ']':
                if pattern[j] == '\\':
                    j += 1
                j += 1
            cls = pattern[i:j + 1]
            if '\\d' in cls and not cls.startswith('[^'):
                out.append('(?:' + cls + '|' + _TOK + ')')
            else:
                out.append(cls)
            i = j + 1
            continue
        out.append(ch)
        i += 1
    return ''.join(out)


_cache = {}


def _compile(pattern, flags=0):
    if isinstance(pattern, _re.Pattern):
        return pattern
    key = (pattern, flags)
    p = _cache.get(key)
    if p is None:
        p = _cache[key] = _re.compile(_rewrite(pattern), flags)
    return p


_NARGS = {'match': 1, 'search': 1, 'fullmatch': 1, 'findall': 1, 'finditer': 1,
          'sub': 3, 'subn': 3, 'split': 2}


def _wrap(name):
    nargs = _NARGS[name]

    def fn(pattern, *a, **k):
        flags = k.pop('flags', 0)
        if len(a) > nargs:
            flags = a[nargs]
            a = a[:nargs]
        return getattr(_compile(pattern, flags), name)(*a, **k)
    return fn


re_env = EnvModule(_re, 're', compile=_compile, match=_wrap('match'), search=_wrap('search'),
                   fullmatch=_wrap('fullmatch'), sub=_wrap('sub'), split=_wrap('split'),
                   findall=_wrap('findall'), finditer=_wrap('finditer'), subn=_wrap('subn'))
