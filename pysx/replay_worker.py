"""Clean-interpreter side of replay and of the per-path self-check: imports the real,
un-instrumented dash-live modules (no import hook) and evaluates the harness oracle."""
from __future__ import annotations

import importlib
import json
import sys
import traceback


def main():
    mod = importlib.import_module(sys.argv[1])
    cases = json.loads(sys.stdin.read())
    out = []
    for c in cases:
        try:
            if c.get('kind') == 'selfcheck':
                obs = mod.observe(c['instance'], c['params'], c['inputs'])
                exp = c['expect']
                out.append({'match': obs is None or _same(obs, exp), 'observed': obs, 'skipped': obs is None})
            else:
                out.append(mod.replay(c))
        except BaseException as e:  # noqa
            out.append({'violated': None, 'match': False,
                        'error': ''.join(traceback.format_exception(type(e), e, e.__traceback__))[-1500:]})
    sys.stdout.write('\n' + json.dumps(out, default=str) + '\n')


def _same(a, b):
    return json.loads(json.dumps(a, default=str)) == json.loads(json.dumps(b, default=str))


if __name__ == '__main__':
    assert 'pysx.loader' not in sys.modules
    main()
