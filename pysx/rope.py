"""Rope of file slices: a byte string described only by *which* bytes of an underlying
file it holds (index ranges with symbolic bounds).  Two results are equal for every file
content iff their index sequences are equal (DESIGN.md 2.2, FileSlice)."""
from __future__ import annotations

import z3

from . import core
from .core import SymInt, SymBool, Unsupported, sx_min, sx_max, sx_and, sx_or, ctx


def _clamp(x, lo, hi):
    return sx_max(lo, sx_min(x, hi))


class Rope:
    __sx_rope__ = True
    __sx_sym__ = True

    def __init__(self, pieces=()):
        # pieces: list of (a, b) with a <= b : file[a:b]
        self.pieces = [(a, b) for a, b in pieces]

    def __repr__(self):
        return f'Rope({self.pieces})'

    def __sx_eval__(self, m):
        out = []
        for a, b in self.pieces:
            av = a if isinstance(a, int) else m.eval(a.t, model_completion=True).as_long()
            bv = b if isinstance(b, int) else m.eval(b.t, model_completion=True).as_long()
            if bv > av:
                out.append([av, bv])
        return out

    def __sx_len__(self):
        n = 0
        for a, b in self.pieces:
            n = n + (b - a)
        return n

    def __len__(self):
        n = self.__sx_len__()
        if isinstance(n, SymInt):
            return n.concrete('len(rope)')
        return n

    def __bool__(self):
        return bool(self.__sx_len__() != 0)

    def concat(self, other):
        return Rope(self.pieces + other.pieces)

    def __add__(self, o):
        if isinstance(o, Rope):
            return self.concat(o)
        if isinstance(o, (bytes, str)) and len(o) == 0:
            return self
        return NotImplemented

    def __radd__(self, o):
        if isinstance(o, (bytes, str)) and len(o) == 0:
            return self
        return NotImplemented

    def __getitem__(self, k):
        if not isinstance(k, slice):
            raise Unsupported('indexing a rope')
        if k.step not in (None, 1):
            raise Unsupported('rope slice with a step')
        total = self.__sx_len__()
        s = 0 if k.start is None else k.start
        e = total if k.stop is None else k.stop
        if isinstance(s, (int, SymInt)) and not isinstance(s, bool):
            if isinstance(s, int):
                s = s if s >= 0 else sx_max(0, total + s)
            else:
                s = core.sx_ite(s < 0, sx_max(0, total + s), s)
        if isinstance(e, (int, SymInt)):
            if isinstance(e, int):
                e = e if e >= 0 else sx_max(0, total + e)
            else:
                e = core.sx_ite(e < 0, sx_max(0, total + e), e)
        s = sx_min(s, total)
        e = sx_max(s, sx_min(e, total))
        out = []
        off = 0
        for a, b in self.pieces:
            ln = b - a
            ps = _clamp(s - off, 0, ln)
            pe = _clamp(e - off, 0, ln)
            out.append((a + ps, a + pe))
            off = off + ln
        return Rope(out)

    def tobytes(self):
        return self

    def __sx_memoryview__(self):
        return self

    def __sx_bytes__(self):
        return self

    def equals_slice(self, A, B):
        """SymBool: this rope is exactly file[A:B] (as an index sequence), B >= A."""
        conds = [self.__sx_len__() == (B - A)]
        off = 0
        for a, b in self.pieces:
            ln = b - a
            conds.append(sx_or(ln == 0, a == A + off))
            conds.append(ln >= 0)
            off = off + ln
        return sx_and(*conds)

    def prefix_is_slice(self, A, n):
        """SymBool: len >= n and the first n bytes are file[A:A+n]."""
        return sx_and(self.__sx_len__() >= n, self[:n].equals_slice(A, A + n))


class SymFile:
    """Underlying raw file of (symbolic) length F with a symbolic position."""

    def __init__(self, length, pos=0):
        self.length = length
        self.pos = pos
        self.closed = False

    def seek(self, offset, whence=0):
        if whence == 0:
            self.pos = offset
        elif whence == 1:
            self.pos = self.pos + offset
        else:
            self.pos = self.length + offset
        self.pos = sx_max(0, self.pos)
        return self.pos

    def tell(self):
        return self.pos

    def read(self, n=-1):
        start = sx_min(self.pos, self.length)
        if n is None or (isinstance(n, int) and n < 0):
            end = self.length
        else:
            if isinstance(n, SymInt) and n.lo < 0:
                n = core.sx_ite(n < 0, self.length, n)
            end = sx_min(start + n, self.length)
        self.pos = sx_max(self.pos, end)
        return Rope([(start, end)])

    def readable(self):
        return True

    def seekable(self):
        return True
