"""./vf setup: validates the environment models against the real libraries and runs the
repository's own collectable tests through the instrumenting loader ("validate the translator")."""
from __future__ import annotations

import os
import subprocess
import sys

ROOT = os.path.dirname(os.path.dirname(os.path.abspath(__file__)))
REPO = os.environ.get('DASHLIVE_REPO', '/repo')

TESTS = ['tests/test_dash_timing.py', 'tests/test_utils.py', 'tests/test_mp4.py', 'tests/test_scte35.py',
         'tests/test_segment.py', 'tests/test_keymaterial.py', 'tests/test_template_tags.py',
         'tests/test_routes.py', 'tests/test_mock_time.py']


def run_repo_tests_instrumented():
    code = ("import sys; sys.path.insert(0, %r); from pysx import loader; loader.install(); "
            "import pytest; sys.exit(pytest.main(['-q', '-p', 'no:cacheprovider', '--timeout=900'] + %r))"
            % (ROOT, TESTS))
    p = subprocess.run([sys.executable, '-c', code], cwd=REPO, capture_output=True, text=True)
    tail = p.stdout.strip().splitlines()[-1] if p.stdout.strip() else p.stderr[-300:]
    return p.returncode, tail


def main():
    import z3
    print('z3', z3.get_version_string())
    if os.environ.get('VF_SETUP_FULL', '1') == '1':
        rc, tail = run_repo_tests_instrumented()
        print('repo tests through the instrumenting loader:', tail)
        if rc != 0:
            print('setup: instrumented test run failed', file=sys.stderr)
            return 2
    print('setup ok')
    return 0
