"""Shadow builtins pre-seeded into the globals of every instrumented module.

Each is a class whose metaclass makes it behave like the builtin for concrete
arguments (isinstance, ==, hash, ``X | Y``, attribute access such as
``int.from_bytes``) and accept the matching proxy values.
"""
from __future__ import annotations

import builtins

from . import core, text
from .core import SymInt, SymBool, Unsupported


class _ShadowMeta(type):
    def __instancecheck__(cls, obj):
        return isinstance(obj, cls._real) or isinstance(obj, cls._proxies())

    def __subclasscheck__(cls, sub):
        try:
            return issubclass(sub, cls._real)
        except TypeError:
            return False

    def __call__(cls, *a, **k):
        return cls._convert(*a, **k)

    def __eq__(cls, other):
        return other is cls or other is cls._real

    def __ne__(cls, other):
        return not cls.__eq__(other)

    def __hash__(cls):
        return hash(cls._real)

    def __or__(cls, other):
        return cls._real | (other._real if isinstance(other, _ShadowMeta) else other)

    def __ror__(cls, other):
        return (other._real if isinstance(other, _ShadowMeta) else other) | cls._real

    def __getattr__(cls, name):
        return getattr(cls._real, name)

    def __repr__(cls):
        return repr(cls._real)

    def __getitem__(cls, item):
        return cls._real[item]


def _floats():
    from . import floats
    return floats


def _bytes():
    from . import bytes_
    return bytes_


def _chars():
    from . import chars
    return chars


class sx_int(metaclass=_ShadowMeta):
    _real = builtins.int

    @staticmethod
    def _proxies():
        return (SymInt, SymBool)

    @staticmethod
    def _convert(*a, **k):
        if not a:
            return builtins.int(*a, **k)
        x = a[0]
        if isinstance(x, (SymInt, SymBool)) and (len(a) > 1 or 'base' in k):
            raise TypeError("int() can't convert non-string with explicit base")
        if isinstance(x, SymInt):
            return x
        if isinstance(x, SymBool):
            return x._as_int()
        if isinstance(x, builtins.str) and text.has_token(x):
            base = a[1] if len(a) > 1 else k.get('base', 10)
            return text.parse_int(x, base)
        conv = getattr(x, '__sx_int__', None)
        if conv is not None:
            return conv(*a[1:], **k)
        return builtins.int(*a, **k)

    @staticmethod
    def from_bytes(b, byteorder='big', *, signed=False):
        conv = getattr(b, '__sx_to_int__', None)
        if conv is not None:
            return conv(byteorder, signed)
        return builtins.int.from_bytes(b, byteorder, signed=signed)


class sx_bool(metaclass=_ShadowMeta):
    _real = builtins.bool

    @staticmethod
    def _proxies():
        return (SymBool,)

    @staticmethod
    def _convert(*a):
        if not a:
            return False
        x = a[0]
        if isinstance(x, SymBool):
            return x
        if isinstance(x, SymInt):
            return x != 0
        return builtins.bool(x)


class sx_float(metaclass=_ShadowMeta):
    _real = builtins.float

    @staticmethod
    def _proxies():
        return (_floats().SymFloat, _floats().OpaqueFloat)

    @staticmethod
    def _convert(*a):
        if not a:
            return 0.0
        x = a[0]
        fl = _floats()
        if isinstance(x, fl.SymFloat):
            return x
        if isinstance(x, (SymInt, SymBool)):
            return fl.from_int(x)
        if isinstance(x, builtins.str) and text.has_token(x):
            return fl.parse_float(x)
        conv = getattr(x, '__sx_float__', None)
        if conv is not None:
            return conv()
        return builtins.float(x)


class sx_str(metaclass=_ShadowMeta):
    _real = builtins.str

    @staticmethod
    def _proxies():
        return (_chars().SymChars,)

    @staticmethod
    def _convert(*a, **k):
        if not a:
            return ''
        return text.sx_str(*a, **k)


class sx_bytes(metaclass=_ShadowMeta):
    _real = builtins.bytes

    @staticmethod
    def _proxies():
        return (_bytes().SymBytes,)

    @staticmethod
    def _convert(*a, **k):
        if a:
            conv = getattr(a[0], '__sx_bytes__', None)
            if conv is not None:
                return conv()
            if isinstance(a[0], _chars().SymChars):
                return a[0].encode_ascii()
            if isinstance(a[0], (list, tuple)) and any(isinstance(v, SymInt) for v in a[0]):
                return _bytes().SymBytes(list(a[0]))
            if isinstance(a[0], SymInt):
                return builtins.bytes(a[0].concrete('bytes(n)'))
        return builtins.bytes(*a, **k)


class sx_bytearray(metaclass=_ShadowMeta):
    _real = builtins.bytearray

    @staticmethod
    def _proxies():
        from . import cryptomodel
        return (cryptomodel.SxByteArray,)

    @staticmethod
    def _convert(*a, **k):
        if a:
            conv = getattr(a[0], '__sx_bytearray__', None)
            if conv is not None:
                return conv()
            if isinstance(a[0], SymInt):
                return builtins.bytearray(a[0].concrete('bytearray(n)'))
            if isinstance(a[0], builtins.int) and not isinstance(a[0], builtins.bool) and core.active() and len(a) == 1:
                # bytearray(n): a mutable array that also accepts symbolic bytes
                from . import cryptomodel
                return cryptomodel.SxByteArray([0] * a[0])
        return builtins.bytearray(*a, **k)


class sx_memoryview(metaclass=_ShadowMeta):
    _real = builtins.memoryview

    @staticmethod
    def _proxies():
        return ()

    @staticmethod
    def _convert(x):
        conv = getattr(x, '__sx_memoryview__', None)
        if conv is not None:
            return conv()
        return builtins.memoryview(x)


def sx_len(x):
    f = getattr(x, '__sx_len__', None)
    if f is not None:
        return f()
    return builtins.len(x)


def sx_ord(x):
    f = getattr(x, '__sx_ord__', None)
    if f is not None:
        return f()
    return builtins.ord(x)


def sx_chr(x):
    if isinstance(x, SymInt):
        return _chars().SymChars([x])
    return builtins.chr(x)


def sx_round(x, n=None):
    if isinstance(x, (SymInt, SymBool)):
        return x
    f = getattr(x, '__sx_round__', None)
    if f is not None:
        return f(n)
    if n is None:
        return builtins.round(x)
    return builtins.round(x, n)


def sx_repr(x):
    if isinstance(x, (SymInt, SymBool)):
        return text.format_int(x, '')
    f = getattr(x, '__sx_repr__', None)
    if f is not None:
        return f()
    return builtins.repr(x)


def sx_abs(x):
    return builtins.abs(x)


def sx_hex(x):
    if isinstance(x, SymInt):
        return builtins.hex(x.concrete('hex()'))
    return builtins.hex(x)


class _GuardedRange:
    """a long range: iterating past the limit is an unwinding-bound failure; loops that leave
    early (an exception at the end of the input, a break) are not affected"""

    def __init__(self, r, lim):
        self.r, self.lim = r, lim

    def __iter__(self):
        n = 0
        for v in self.r:
            n += 1
            if n > self.lim:
                raise core.BoundExceeded(f'loop over range of {len(self.r)} steps passed {self.lim} iterations')
            yield v

    def __len__(self):
        return len(self.r)

    def __getitem__(self, k):
        return self.r[k]

    def __contains__(self, v):
        return v in self.r

    def __reversed__(self):
        return reversed(self.r)


def sx_range(*args):
    """range(); with ctx.env['range_limit'] set, a loop that really executes more iterations than
    the limit is an unwinding-bound failure (the harness decides what that means)"""
    r = builtins.range(*args)
    if core.active():
        lim = core.ctx().env.get('range_limit')
        if lim is not None and len(r) > lim:
            return _GuardedRange(r, lim)
    return r


def sx_tick():
    """one iteration of a while loop in instrumented code (see loader.Tx.visit_While)"""
    if core.active():
        env = core.ctx().env
        lim = env.get('tick_limit')
        if lim is not None:
            n = env.get('ticks', 0) + 1
            env['ticks'] = n
            if n > lim:
                raise core.BoundExceeded(f'while loops passed {lim} iterations on one path')


SHADOW_BUILTINS = {
    '__sx_tick__': sx_tick,
    'range': sx_range,
    'int': sx_int,
    'bool': sx_bool,
    'float': sx_float,
    'str': sx_str,
    'bytes': sx_bytes,
    'bytearray': sx_bytearray,
    'memoryview': sx_memoryview,
    'len': sx_len,
    'ord': sx_ord,
    'chr': sx_chr,
    'round': sx_round,
    'repr': sx_repr,
    'min': core.sx_min,
    'max': core.sx_max,
    'hex': sx_hex,
    '__sx_mod__': text.sx_mod,
    '__sx_join__': text.sx_join,
    '__sx_fstr__': text.sx_fstr,
    '__sx_in__': text.sx_in,
}
