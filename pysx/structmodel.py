"""struct stand-in: pack/unpack for the big-endian integer formats the repository uses,
over SymInt / SymBytes (byte packing by fresh byte variables, DESIGN.md A.5)."""
from __future__ import annotations

import struct as _struct

from . import core, bytes_
from .core import SymInt, SymBool, Unsupported
from .bytes_ import SymBytes
from .env import EnvModule

_SIZES = {'B': (1, False), 'b': (1, True), 'H': (2, False), 'h': (2, True),
          'I': (4, False), 'i': (4, True), 'L': (4, False), 'l': (4, True),
          'Q': (8, False), 'q': (8, True)}


def _parse(fmt):
    if isinstance(fmt, bytes):
        fmt = fmt.decode('ascii')
    order = 'big'
    f = fmt
    if f[:1] in '<>!=@':
        if f[0] == '<':
            order = 'little'
        elif f[0] in '=@':
            raise Unsupported('native struct formats')
        f = f[1:]
    codes = []
    num = ''
    for ch in f:
        if ch.isdigit():
            num += ch
            continue
        if ch == ' ':
            continue
        if ch == 's':
            codes.append(('s', int(num) if num else 1))
            num = ''
            continue
        if ch == 'x':
            codes.append(('x', int(num) if num else 1))
            num = ''
            continue
        if ch not in _SIZES:
            raise Unsupported(f'struct format char {ch!r}')
        for _ in range(int(num) if num else 1):
            codes.append(ch)
        num = ''
    return order, codes


def _pack(fmt, *vals):
    if not any(isinstance(v, (SymInt, SymBool)) for v in vals):
        return _struct.pack(fmt, *vals)
    order, codes = _parse(fmt)
    nvals = sum(1 for c in codes if not (isinstance(c, tuple) and c[0] == 'x'))
    if nvals != len(vals):
        raise _struct.error(f'pack expected {nvals} items for packing (got {len(vals)})')
    out = b''
    vals = list(vals)
    for ch in codes:
        if isinstance(ch, tuple):
            if ch[0] == 'x':
                out = out + b'\0' * ch[1]
                continue
            v = vals.pop(0)
            v = v[:ch[1]]
            out = out + v + b'\0' * (ch[1] - len(v))
            continue
        v = vals.pop(0)
        size, signed = _SIZES[ch]
        if isinstance(v, SymBool):
            v = v._as_int()
        if isinstance(v, SymInt):
            lim = 1 << (8 * size)
            lo, hi = (-(lim >> 1), (lim >> 1) - 1) if signed else (0, lim - 1)
            with core.range_check():
                bad = not (lo <= v) or not (v <= hi)
            if bad:
                raise _struct.error(f"'{ch}' format requires {lo} <= number <= {hi}")
            v = core.refine(v, lo, hi)
            piece = bytes_.int_to_bytes(v, size, order, signed)
        else:
            piece = _struct.pack(('>' if order == 'big' else '<') + ch, v)
        out = out + piece
    return out


def _unpack(fmt, data):
    if not isinstance(data, SymBytes):
        return _struct.unpack(fmt, data)
    order, codes = _parse(fmt)
    total = sum(c[1] if isinstance(c, tuple) else _SIZES[c][0] for c in codes)
    if len(data) != total:
        raise _struct.error(f'unpack requires a buffer of {total} bytes')
    out = []
    pos = 0
    for ch in codes:
        if isinstance(ch, tuple):
            if ch[0] == 's':
                out.append(data[pos:pos + ch[1]])
            pos += ch[1]
            continue
        size, signed = _SIZES[ch]
        out.append(bytes_.bytes_to_int(data[pos:pos + size], order, signed))
        pos += size
    return tuple(out)


def _unpack_from(fmt, data, offset=0):
    if not isinstance(data, SymBytes):
        return _struct.unpack_from(fmt, data, offset)
    return _unpack(fmt, data[offset:offset + _struct.calcsize(fmt)])


struct_env = EnvModule(_struct, 'struct', pack=_pack, unpack=_unpack, unpack_from=_unpack_from)
