"""Strings that embed symbolic integers as sentinel tokens (DESIGN.md 2.2).

A token is  S + id-chars + E  where S/E are private-use code points and the id is
written with 16 further private-use code points (so that ``\\d``, ``isdigit``,
``lower`` ... never see ordinary characters).  A token denotes "the decimal
rendering of a *non-negative* SymInt"; a possibly negative integer is forked on
its sign at formatting time.
"""
from __future__ import annotations

import re as _re

import z3

from . import core
from .core import SymInt, SymBool, Unsupported, ctx

S = '\ue000'
E = '\ue001'
_D0 = 0xE100
TOKEN_RE = _re.compile('\ue000([\ue100-\ue10f]+)\ue001')
TOKEN_PAT = '\ue000[\ue100-\ue10f]+\ue001'


def _enc(n):
    s = ''
    while True:
        s = chr(_D0 + (n & 15)) + s
        n >>= 4
        if not n:
            return s


def _dec(s):
    n = 0
    for ch in s:
        n = (n << 4) | (ord(ch) - _D0)
    return n


def has_token(s):
    return isinstance(s, str) and S in s


class Tok:
    """a token occurrence: non-negative SymInt x rendered in decimal, zero padded to width."""
    __slots__ = ('x', 'width')

    def __init__(self, x, width=0):
        self.x = x
        self.width = width


def new_token(x: SymInt, width=0) -> str:
    cx = ctx()
    # one token per (term, width) (so equal terms give equal text)
    key = ('tok', x.t.get_id(), width)
    tid = cx.memo.get(key)
    if tid is None:
        tid = len(cx.tokens) + 1
        cx.tokens[tid] = Tok(x, width)
        cx.memo[key] = tid
        cx.keep.append(x.t)
    return S + _enc(tid) + E


def padded(x, width):
    """text of a non-negative int/SymInt zero padded to width (x < 10**width is the caller's duty)."""
    if isinstance(x, int):
        return format(x, f'0{width}d')
    return new_token(x, width)


def format_int(x, spec=''):
    """format(x, spec) for a SymInt: token text (plain decimal) or a concretised rendering."""
    if isinstance(x, SymBool):
        return format(bool(x), spec)
    if isinstance(x, int):
        return format(x, spec)
    if spec in ('', 'd'):
        if x.lo < 0:
            if x.hi < 0 or (x < 0):
                return '-' + format_int(-x, spec)
            x = core.refine(x, lo=0)
        if isinstance(x, int):
            return format(x, spec)
        return new_token(x)
    # width / padding / other presentation types: digits are inspected -> concretise
    v = x.concrete(f'format spec {spec!r}')
    return format(v, spec)


def split_tokens(s):
    """-> list of str / Tok pieces."""
    out = []
    pos = 0
    for m in TOKEN_RE.finditer(s):
        if m.start() > pos:
            out.append(s[pos:m.start()])
        out.append(ctx().tokens[_dec(m.group(1))])
        pos = m.end()
    if pos < len(s):
        out.append(s[pos:])
    if S in ''.join(p for p in out if isinstance(p, str)) or E in ''.join(p for p in out if isinstance(p, str)):
        raise Unsupported('a token string was cut inside a token')
    return out


def render(s, model):
    """Concrete text of a token string under a z3 model."""
    cx_tokens = None

    def rep(m):
        nonlocal cx_tokens
        if cx_tokens is None:
            cx_tokens = ctx().tokens if core.active() else _LAST_TOKENS
        tk = cx_tokens[_dec(m.group(1))]
        return format(model.eval(tk.x.t, model_completion=True).as_long(), f'0{tk.width}d')
    return TOKEN_RE.sub(rep, s)


_LAST_TOKENS = {}

_WS = ' \t\n\r\x0b\x0c'


def parse_int(s, base=10):
    """int(s, base) for a str that may contain tokens; CPython grammar."""
    if not has_token(s):
        return int(s, base)
    if base != 10:
        raise Unsupported('int() of a token string with base != 10')
    t = s.strip()
    sign = 1
    if t[:1] in '+-':
        if t[0] == '-':
            sign = -1
        t = t[1:]
    pieces = split_tokens(t)
    if len(pieces) == 1 and isinstance(pieces[0], Tok):
        return pieces[0].x if sign == 1 else -pieces[0].x
    # any non-digit, non-underscore character makes the literal invalid for every rendering
    for p in pieces:
        if isinstance(p, str):
            if not all(ch.isdigit() or ch == '_' for ch in p):
                raise ValueError(f'invalid literal for int() with base 10: {s!r}')
    raise Unsupported('int() of digits mixed with a token')


def sx_str(x='', *args):
    if isinstance(x, (SymInt, SymBool)):
        return format_int(x, '')
    f = getattr(x, '__sx_str__', None)
    if f is not None:
        return f()
    if type(x).__name__ == 'SymBytes':
        from . import chars
        enc = (args[0] if args else 'utf-8').lower().replace('_', '-')
        errors = args[1] if len(args) > 1 else 'strict'
        for i, v in enumerate(x.items()):
            if isinstance(v, int):
                if v < 128:
                    continue
            elif v < 128:
                continue
            # a byte >= 0x80: never valid ASCII; UTF-8 sequences are not modelled
            if enc in ('ascii', 'us-ascii') and errors == 'strict':
                raise UnicodeDecodeError('ascii', b'\x80', 0, 1, 'ordinal not in range(128)')
            if enc in ('utf-8', 'utf8') and errors == 'strict' and ctx().env.get('utf8_nondet'):
                # harness opt-in over-approximation: a high byte either makes the text invalid
                # or decodes (one character per byte; multi-byte merging is not modelled)
                ctx().env['nondet_used'] = True
                if bool(ctx().bool(ctx().fresh_name('utf8_invalid'), register=False)):
                    raise UnicodeDecodeError('utf-8', b'\x80', 0, 1, 'invalid start byte')
                continue
            raise Unsupported('decoding symbolic non-ASCII bytes')
        return chars.mk(x.items())
    return str(x, *args)


def sx_mod(fmt, args):
    """literal % args"""
    if isinstance(fmt, bytes):
        return fmt % args
    tup = args if isinstance(args, tuple) else (args,)
    if not any(_needs(a) for a in tup):
        if isinstance(args, dict) and any(_needs(a) for a in args.values()):
            pass
        else:
            return fmt % args
    if isinstance(args, dict):
        return _mod_dict(fmt, args)
    out = []
    i = 0
    ai = 0
    n = len(fmt)
    while i < n:
        ch = fmt[i]
        if ch != '%':
            out.append(ch)
            i += 1
            continue
        j = i + 1
        if j < n and fmt[j] == '%':
            out.append('%')
            i = j + 1
            continue
        while j < n and fmt[j] in '#0- +':
            j += 1
        while j < n and fmt[j].isdigit():
            j += 1
        if j < n and fmt[j] == '.':
            j += 1
            while j < n and fmt[j].isdigit():
                j += 1
        conv = fmt[j]
        flags = fmt[i + 1:j]
        a = tup[ai]
        ai += 1
        if _needs(a):
            out.append(_conv(a, flags, conv))
        else:
            out.append(('%' + flags + conv) % (a,))
        i = j + 1
    return ''.join(out)


def _mod_dict(fmt, args):
    def rep(m):
        key, flags, conv = m.group(1), m.group(2), m.group(3)
        a = args[key]
        if _needs(a):
            return _conv(a, flags, conv)
        return ('%' + flags + conv) % (a,)
    return _re.sub(r'%\((\w+)\)([#0\- +]*\d*(?:\.\d+)?)([a-zA-Z])', rep, fmt)


def _needs(a):
    return isinstance(a, (SymInt, SymBool)) or hasattr(a, '__sx_str__') or has_token(a) \
        or type(a).__name__ == 'SymFloat'


def _conv(a, flags, conv):
    if has_token(a) and isinstance(a, str):
        if conv in 'sr' and not flags:
            return a
        raise Unsupported('%-formatting of a token string with flags')
    if type(a).__name__ == 'SymFloat':
        if conv in 'di':
            a = a.__trunc__()
        else:
            from . import floats
            return floats.format_float(a, flags, conv)
    if isinstance(a, (SymInt, SymBool)):
        if conv in 'disr':
            if flags in ('',):
                return format_int(a, '')
            return format_int(a, flags + 'd')
        if conv in 'xX':
            return format_int(a, flags + conv)
        if conv == 'f':
            v = a.concrete('%f')
            return ('%' + flags + conv) % (v,)
        raise Unsupported(f'%{flags}{conv} of a symbolic int')
    if hasattr(a, '__sx_str__'):
        return a.__sx_str__()
    return ('%' + flags + conv) % (a,)


def sx_join(sep, items):
    items = list(items)
    if any(hasattr(i, '__sx_join__') for i in items):
        for i in items:
            if hasattr(i, '__sx_join__'):
                return i.__sx_join__(sep, items)
    return sep.join(items)


def sx_format(fmt, *args, **kw):
    if not any(_needs(a) for a in args) and not any(_needs(a) for a in kw.values()):
        return fmt.format(*args, **kw)
    # delegate to str.format: SymInt.__format__ produces tokens
    return fmt.format(*args, **kw)


def sx_fstr(*parts):
    """f-string evaluation that keeps symbolic strings symbolic"""
    from . import chars
    out = []
    symbolic = False
    for p in parts:
        if isinstance(p, str):
            out.append(p)
            continue
        value, conv, spec = p
        if conv == 115:
            value = sx_str(value)
        elif conv == 114:
            f = getattr(value, '__sx_repr__', None)
            value = f() if f is not None else (format_int(value, '') if isinstance(value, (SymInt, SymBool)) else repr(value))
        elif conv == 97:
            value = ascii(value)
        if isinstance(value, chars.SymChars):
            if spec:
                raise Unsupported('format spec on a symbolic string')
            out.append(value)
            symbolic = True
        else:
            out.append(format(value, spec))
    if not symbolic:
        return ''.join(out)
    cps = []
    for o in out:
        cps += chars.as_cps(o)
    return chars.mk(cps)


def sx_in(x, c):
    """x in c: == chain for a symbolic x against a hashed container, the ordinary operator otherwise"""
    if getattr(x, '__sx_sym__', False) and isinstance(c, (set, frozenset, dict, tuple)) \
            and not isinstance(x, (SymInt,)):
        for e in c:
            if x == e:
                return True
        return False
    return x in c
