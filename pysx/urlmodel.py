"""urllib.parse stand-in: quote_plus / unquote_plus / quote / unquote / parse_qsl over SymChars
(ASCII code points; a symbolic code point >= 128 is outside the model and raises Unsupported)."""
from __future__ import annotations

import urllib as _urllib
import urllib.parse as _up

from . import core, chars
from .core import SymInt, Unsupported, sx_and, sx_or, sx_ite
from .chars import SymChars
from .env import EnvModule

_ALWAYS_SAFE = 'ABCDEFGHIJKLMNOPQRSTUVWXYZabcdefghijklmnopqrstuvwxyz0123456789_.-~'


def _is_safe(c, safe):
    if isinstance(c, int):
        return chr(c) in _ALWAYS_SAFE or chr(c) in safe
    conds = [sx_and(c >= 65, c <= 90), sx_and(c >= 97, c <= 122), sx_and(c >= 48, c <= 57),
             c == 95, c == 46, c == 45, c == 126]
    for ch in safe:
        conds.append(c == ord(ch))
    return sx_or(*conds)


def _hex_upper(n):
    if isinstance(n, int):
        return ord('0123456789ABCDEF'[n])
    return sx_ite(n < 10, n + 48, n + 55)


def _quote(s, safe, plus):
    return _quote_model(s, safe, plus, shortcut=True)


def _quote_model(s, safe, plus, shortcut=False):
    if shortcut and isinstance(s, SymChars) and all(isinstance(c, int) for c in s.cps):
        s = s.concrete()
    if not isinstance(s, SymChars):
        return _up.quote_plus(s, safe) if plus else _up.quote(s, safe)
    out = []
    for c in s.cps:
        if not isinstance(c, int) and not (c < 128):
            raise Unsupported('non-ASCII symbolic character in quote()')
        if isinstance(c, int) and c >= 128:
            out += chars.as_cps(_up.quote(chr(c)))
            continue
        if plus and c == 32:
            out.append(43)
        elif _is_safe(c, safe):
            out.append(c)
        else:
            hi, lo = core.sx_divmod(c, 16)
            out += [37, _hex_upper(hi), _hex_upper(lo)]
    return chars.mk(out)


def quote_plus(s, safe='', encoding=None, errors=None):
    return _quote(s, safe, True)


def quote(s, safe='/', encoding=None, errors=None):
    return _quote(s, safe, False)


def _hexval(c):
    if isinstance(c, int):
        return int(chr(c), 16) if chr(c) in '0123456789abcdefABCDEF' else None
    if sx_and(c >= 48, c <= 57):
        return c - 48
    if sx_and(c >= 65, c <= 70):
        return c - 55
    if sx_and(c >= 97, c <= 102):
        return c - 87
    return None


def _unquote(s, plus):
    return _unquote_model(s, plus, shortcut=True)


def _unquote_model(s, plus, shortcut=False):
    if shortcut and isinstance(s, SymChars) and all(isinstance(c, int) for c in s.cps):
        s = s.concrete()
    if not isinstance(s, SymChars):
        return _up.unquote_plus(s) if plus else _up.unquote(s)
    cps = s.cps
    out = []
    i = 0
    n = len(cps)
    while i < n:
        c = cps[i]
        if plus and c == 43:
            out.append(32)
            i += 1
            continue
        if i + 2 <= n - 1 and c == 37:
            a, b = _hexval(cps[i + 1]), _hexval(cps[i + 2])
            if a is not None and b is not None:
                v = a * 16 + b
                if not (v < 128):
                    # a lone byte >= 0x80 is never valid UTF-8: errors='replace' yields U+FFFD.
                    # Two or more adjacent escapes could form a valid sequence: not modelled.
                    nxt = i + 5 <= n - 1 and (cps[i + 3] == 37) and _hexval(cps[i + 4]) is not None \
                        and _hexval(cps[i + 5]) is not None
                    prv = i >= 3 and (cps[i - 3] == 37) and _hexval(cps[i - 2]) is not None \
                        and _hexval(cps[i - 1]) is not None
                    if nxt or prv:
                        raise Unsupported('adjacent percent-decoded non-ASCII bytes in a symbolic string')
                    out.append(0xFFFD)
                    i += 3
                    continue
                out.append(v)
                i += 3
                continue
        out.append(c)
        i += 1
    return chars.mk(out)


def unquote_plus(s, encoding='utf-8', errors='replace'):
    return _unquote(s, True)


def unquote(s, encoding='utf-8', errors='replace'):
    return _unquote(s, False)


def parse_qsl(qs, keep_blank_values=False, strict_parsing=False, **kw):
    if not isinstance(qs, SymChars):
        return _up.parse_qsl(qs, keep_blank_values, strict_parsing, **kw)
    out = []
    for pair in qs.split('&'):
        if len(pair) == 0:
            continue
        if isinstance(pair, str):
            out += _up.parse_qsl(pair, keep_blank_values, strict_parsing, **kw)
            continue
        i = pair.find('=')
        if i < 0:
            if keep_blank_values:
                out.append((_unquote(pair, True), ''))
            continue
        name, value = pair[:i], pair[i + 1:]
        if len(value) or keep_blank_values:
            out.append((_unquote(name, True) if isinstance(name, SymChars) else _up.unquote_plus(name),
                        _unquote(value, True) if isinstance(value, SymChars) else _up.unquote_plus(value)))
    return out


parse_env = EnvModule(_up, 'urllib.parse', quote_plus=quote_plus, quote=quote, unquote_plus=unquote_plus,
                      unquote=unquote, parse_qsl=parse_qsl)


class _Urllib:
    parse = parse_env

    def __getattr__(self, name):
        import importlib
        return importlib.import_module(f'urllib.{name}')


urllib_env = _Urllib()


def validate(seed=0, rounds=300):
    """differential validation against urllib.parse on concrete ASCII strings (through SymChars
    built from concrete code points the model returns plain str)"""
    import random
    rnd = random.Random(seed)
    n = 0
    alphabet = [chr(c) for c in range(32, 127)]
    for _ in range(rounds):
        s = ''.join(rnd.choice(alphabet) for _ in range(rnd.randint(0, 8)))
        # force the character-wise model (not the concrete shortcut) through a subclass
        class _S(SymChars):
            pass
        sc = _S(chars.as_cps(s))
        q = _quote_model(sc, '', True)
        assert q == _up.quote_plus(s), (s, q)
        try:
            u = _unquote_model(sc, True)
        except Unsupported:
            continue
        assert u == _up.unquote_plus(s), (s, u, _up.unquote_plus(s))
        n += 2
    return n
