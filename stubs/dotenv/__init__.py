"""Import-only stand-in for python-dotenv."""


def load_dotenv(*args, **kwargs):
    return False
