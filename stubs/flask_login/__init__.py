"""Import-only stand-in for flask_login (names only)."""


class UserMixin:
    pass


class AnonymousUserMixin:
    pass


class LoginManager:
    def __init__(self, *a, **k):
        pass

    def init_app(self, app):
        pass

    def user_loader(self, fn):
        return fn

    def request_loader(self, fn):
        return fn

    def unauthorized_handler(self, fn):
        return fn


current_user = None


def login_required(fn):
    return fn


def login_user(*a, **k):
    return True


def logout_user(*a, **k):
    return True


def fresh_login_required(fn):
    return fn
