"""Import-only stand-in for netifaces."""
AF_INET = 2


def interfaces():
    return []


def ifaddresses(name):
    return {}
