"""Import-only stand-in for the missing third-party package (see DESIGN.md §1)."""
from sqlalchemy import JSON


class JSONField(JSON):
    def __init__(self, *args, enforce_string=False, enforce_unicode=False, **kwargs):
        super().__init__()


def mutable_json_field(*args, **kwargs):
    return JSONField()
