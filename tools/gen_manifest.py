#!/usr/bin/env python3
"""Regenerates MANIFEST.json from the table below (kept valid at all times)."""
import json, os
ROOT = os.path.dirname(os.path.dirname(os.path.abspath(__file__)))
props = [json.loads(l) for l in open(os.path.join(ROOT, 'properties.jsonl'))]
TECH = 'symbolic execution of the real Python code (proxy values, complete bounded path enumeration) + z3 validity query per obligation and path; counterexamples replayed on un-instrumented code'
NA = {
 'C15': 'authorisation over the route table, login sessions, SQLAlchemy state and HMAC CSRF tokens: no arithmetic/data-structure kernel to encode symbolically; flask_login is not installed (DESIGN.md 6)',
 'C17': 'consistency comes from SQLAlchemy unit-of-work/cascade rules executing SQL on SQLite; nothing to execute symbolically without modelling the ORM itself (DESIGN.md 6)',
 'C18': 'whole-program property of two asyncio programs talking HTTP through lxml and thread pools; out of reach of symbolic execution within meaningful bounds (DESIGN.md 6)',
}
CHECKS = {
 'C09': dict(
   text='two executions of the manifest side (DashTiming + generateSegmentTimeline) at symbolic instants T1 < T2 with one option vector: shared entries agree, both timelines lie on one grid of segment boundaries, the window and publishTime only move forward; the PatchLocation arithmetic of the real ManifestContext.__init__ (publish second, ttl) with symbolic clock and depth, and the fromtimestamp round trip of the patch endpoint',
   note='clock = base instant + symbolic window, T2 - T1 up to 2 loops (quick) / 3 loops (thorough) of the reference; create_period is reduced to its timing part; applying the XML patch to a document is outside the claim',
   ref='DESIGN.md 5 C09'),
 'C10': dict(
   text='the real generate_init_segment runs on a stored fixture init segment with symbolic content bytes; DRM selection strings pass through the real option parser and DrmContext; the PlayReady Object is an opaque symbolic blob; an independent walker proves that every stored box is byte-identical and in order, that exactly the expected pssh boxes are appended (SystemID, key id, payload) and that mehd disappears in live mode only',
   note='fixture init segments (clear video/audio/text, encrypted video/audio); key rows, current_stream, is_https_request, CORS helper and PlayReady.generate_pro are stand-ins; quick tier: 15 DRM selections, thorough: all combinations of systems and location sets',
   ref='DESIGN.md 5 C10'),
 'C11': dict(
   text='partial claim, byte-level kernels: PlayReady.hex_to_le_guid against the RFC 4122 bytes_le permutation, generate_content_key against the published key-seed algorithm with SHA-256 as an uninterpreted function (z3 congruence), generate_checksum with AES as an uninterpreted function, ClearKey base64url encode/decode and KeyMaterial hex/base64 forms over symbolic bytes through 4-/6-bit linear character models',
   note='not claimed: WRMHEADER / PRO generation and parsing, ContentProtection element rendering, licence endpoint database lookup, the SHA-256 / AES primitives themselves',
   ref='DESIGN.md 5 C11'),
 'C12': dict(
   text='ServeMpsMedia.calculate_media_segment_index executed with a symbolic Period source offset (any microsecond of the first loop) and symbolic segment number against the nearest-start oracle; ManifestContext.create_all_vod_periods with symbolic period durations; create_all_live_periods on concrete period tables under a symbolic clock window and depth',
   note='Period / stream rows are stand-ins, create_period returns Period(id, duration); the nearest-start oracle allows one reference tick of slack; offsets beyond the first loop and per-period track selection are outside',
   ref='DESIGN.md 5 C12'),
 'C13': dict(
   text='bounded symbolic execution of the real get_http_range / OnDemandMedia.get with range positions and content length as solver variables; RFC 7233 oracle; every path enumerated, every obligation an SMT validity query',
   note='header families: well-formed single ranges (3 shapes + case/whitespace variants) with unbounded positions, L <= 2^40; flask request is a stand-in dict; werkzeug header parsing outside the claim',
   ref='DESIGN.md 5 C13'),
 'C01': dict(
   text='manifest side (DashTiming, generateSegmentTimeline) and media side (DashTiming rebuilt from the URL values, LiveMedia.calculate_media_segment_index) executed symbolically on the same clock: now = base instant + symbolic microsecond window, symbolic depth, leeway, requested $Number$ / timeline entry; DASH availability window oracle from manifest values only',
   note='layout catalogue (fixtures + synthetic), base instants 65 s .. 54 years, clock window two loops of the reference, explicit availabilityStartTime (C08 resolves symbolic starts, C07 the URL transfer); floats as exact rationals with error bounds; HTTP routing outside',
   ref='DESIGN.md 5 C01'),
 'C02': dict(
   text='the whole real MediaRequestBase.generate_media_segment executed on fixture media under a symbolic clock and symbolic $Number$ / timeline entry: real parser on the stored bytes, tfdt/mfhd rewritten with symbolic terms, real encoder through the struct model, independent box walker reads the served fields back as terms; equalities with the advertised values are SMT validity queries',
   note='fixture media only (bbb, tears); Flask request/response, CORS helper and database rows are stand-ins; clock windows at base instants incl. the 2^32-tick crossing of tfdt; known finding: drift of the last segment of a loop (known_findings.json)',
   ref='DESIGN.md 5 C02'),
 'C03': dict(
   text='the real generate_media_segment (load_fragment through the windowed BufferedReader, tfdt/mfhd rewrite incl. the 2^32 growth, sidx removal, emsg insertion with a symbolic schedule start, DRM traf updates, PIFF cloning, re-encode with trun/saio/tfhd fix-ups) runs on a stored fixture segment whose content bytes are solver variables; an independent box walker checks nesting, payload identity, trun/saio offsets and emsg placement on the served bytes',
   note='segment structures are those of the fixture media (clear video/audio/text, encrypted audio/video); option values come through the real option parser from concrete argument sets (DRM, PIFF, PlayReady version, saio bug, ping/scte35 events); two clock instants per case; assumed indexing invariant: trun sample sizes sum to the mdat payload length',
   ref='DESIGN.md 5 C03'),
 'C04': dict(
   text='concrete structure, symbolic content: a pinned pre-pass through the real parser/encoder discovers which bytes of each fixture steer control flow; every other byte becomes a solver variable; the real eager and lazy parsers, the encoder and the JSON conversion then run on that buffer and field trees / byte strings are compared term by term; edit operations are checked by an independent box walker',
   note='box structures are those of the fixture files (moov, encrypted moov, HEVC, E-AC-3, text, audio and text segments); symbolic values range over the parser image (every value the parser can produce); at most 1500 symbolic bytes per file; CRC/struct/bitstring/base64 are environment models validated differentially',
   ref='DESIGN.md 5 C04'),
 'C05': dict(
   text='partial claim, kernel level: the manifest, patch and include templates are scanned on every run for output expressions; for every sink fed by a hostile string class (title, licence URLs, request URL / forwarded query values / host name, UTCTiming value, event value) the XML context and the escaping chain (real xmlSafe filter, markupsafe autoescape by file name, or none) are derived from the template text, the chain is executed on a symbolic string and the rendered text is proved harmless in that context (no <, every & starts a reference, no double quote inside an attribute, no ]]>); dict_to_cgi_params on symbolic free text must not introduce $ into URL templates',
   note='Jinja rendering of whole documents, required attributes per MPD@type, id uniqueness and non-empty AdaptationSets are outside (database content); strings are XML 1.0 characters up to U+007E, length 1..3 (quick); xs:duration / xs:dateTime text is C19, non-negative timing values C08; counterexamples are judged by expat on the real filter output; one known finding (unquoted $ in forwarded free text)',
   ref='DESIGN.md 5 C05'),
 'C06': dict(
   text='Representation.load executed on a symbolic parsed-file layout (symbolic box sizes, sample durations, first sequence number and decode time), SegmentList tiling, VOD $Number$/$Time$ addressing through the real handler kernel with symbolic startNumber and requested number, and the mediaPresentationDuration text round trip with a symbolic media duration',
   note='indexing: 2..4 fragments (quick), optional sidx/free tail boxes, three tfdt modes; VOD addressing on the layout catalogue; moov is the parsed moov of a fixture; bitrate/frame-rate quotients are over-approximated (not part of the obligations)',
   ref='DESIGN.md 5 C06'),
 'C07': dict(
   text='for every registered DashOption (read from the repository at run time): value -> to_string -> query decoding -> from_string, and the whole forwarding pipeline (generate_cgi_parameters per media type, dict_to_cgi_params, query decoding, calculate_options) on symbolic values: integers, booleans, forked enumerations, calendar instants with symbolic offset as token text, free text as symbolic characters through a urllib.parse model',
   note='query decoding = parse_qsl semantics; free text 1..2 ASCII characters (quick); options whose usage excludes a media type must be absent from that URL; two known findings (double URL-decoding of licence URLs, unquoted free-text options) are region-labelled',
   ref='DESIGN.md 5 C07'),
 'C08': dict(
   text='DashTiming executed on a fully symbolic calendar instant (year..microsecond are solver variables, calendar arithmetic relational), symbolic depth and explicit start; coherence obligations as SMT validity queries on every path; monotonicity by a one-day-window induction step',
   note='now in 1971..2200 UTC; minimumUpdatePeriod from a concrete catalogue (it divides a symbolic value); reference (segment_duration, timescale) from the layout catalogue; float total_seconds() modelled as exact rational with error bound',
   ref='DESIGN.md 5 C08'),
 'C14': dict(
   text='RepeatingEventBase.create_emsg_boxes / create_manifest_context executed for one arbitrary segment (symbolic start and duration) against an arbitrary schedule (symbolic start, count, event duration); the emitted ids must equal the scheduled ids inside the converted segment interval - an inductive step that covers every run of gapless segments; SCTE-35 encode/parse round trip over a bit-level model with CRC as an uninterpreted function',
   note='interval and the two timescales from small concrete catalogues (they multiply/divide symbolic values); at most 6 events per segment (unwinding assertion); moof/representation are stand-ins',
   ref='DESIGN.md 5 C14'),
 'C16': dict(
   text='kernel-level claim: every option parser executed on arbitrary short ASCII text (symbolic characters; regular expressions and strptime decided by character-class partition) and on structured text assembled from each parser vocabulary, followed by the code that consumes the parsed value outside the handlers ValueError guard (DRM tuples, UTCTiming context, error-position translation); the synthetic-error counters as one step from an arbitrary session state plus request sequences from a fresh session; event scheduling with every value the event option parsers let through (unwinding bound = termination); the http-ntp time endpoint with a symbolic clock; Mp4Atom.load (eager and lazy) on fixture files with one box size field symbolic and the input cut inside a box header',
   note='partial claim: the HTTP router, HTML/REST management endpoints, database state and Jinja rendering are outside; text is ASCII, free-form length 0..3 (quick); size-field windows and the session/counter domains are listed in evidence.bounds; "reported parse error" = ValueError / struct.error / EOFError / OSError; one known finding (emsg 32-bit field overflow) is region-labelled',
   ref='DESIGN.md 5 C16'),
 'C19': dict(
   text='toIsoDuration / from_isodatetime / to_iso_datetime executed on symbolic values: durations N/den with N a solver variable (floats as exact rationals with rounding-error bounds), date-times with symbolic calendar fields, microsecond and UTC offset, text as token strings through the repository own regular expressions; timecode conversions as integer obligations',
   note='durations are rationals N/den for a catalogue of denominators, x <= 1e7 s, tolerance 0.5 ms + 4 ns; the millisecond field is concretised (1001-way bisection) because the code inspects its digits; tc.inv tolerance max(1 tick, 1 us)',
   ref='DESIGN.md 5 C19'),
 'C20': dict(
   text='inductive step over an arbitrary reader state satisfying the representation invariant (built on the real BufferedReader class), one operation with symbolic arguments, file content abstracted to index ropes so equality holds for every content; every LRU eviction order through a nondeterministic clock; plus 2-operation sequences from the constructor state',
   note='bounds: buffer sizes / window / offset ranges listed in evidence.bounds; underlying file modelled as a raw file of symbolic length (pysx.rope.SymFile); read(n) for n >= -1, peek(n) for n >= 1',
   ref='DESIGN.md 5 C20'),
}
def main():
    m = {
     'version': 1,
     'setup_cmd': './vf setup',
     'hooks': {'guard': 'DASHLIVE_VERIF',
               'enable': 'no hooks are needed: checks load /repo sources through an import hook of their own (pysx.loader); the guard variable is declared but unused',
               'baseline_off_cmd': 'cd /repo && /venv/bin/python -m pytest -ra -q -p no:cacheprovider --timeout=900 --continue-on-collection-errors',
               'source_commits': [], 'add_only': True},
     'engines': [{'name': 'pysx', 'path': 'pysx/', 'serves_properties': sorted(CHECKS),
                  'kind_free_text': 'symbolic execution of the real Python functions by proxy values and re-execution; z3 decides every branch and every obligation; counterexamples are replayed on the un-instrumented code in a clean interpreter'}],
     'checks': [], 'not_applicable': [],
     'notes': 'See DESIGN.md. Exit codes: 0 held (possibly with KNOWN-FINDING / INCONCLUSIVE lines), 1 VIOLATION, 2 machinery failure. known_findings.json lists fixed and known defects.',
    }
    for p in props:
        pid = p['id']
        if pid in CHECKS:
            c = CHECKS[pid]
            m['checks'].append({
              'property_id': pid,
              'quick_cmd': f'./vf check {pid} --tier quick',
              'thorough_cmd': f'./vf check {pid} --tier thorough',
              'evidence_file': f'evidence/{pid}.json',
              'replay_cmd_template': './vf replay {path}',
              'engine': 'pysx',
              'level_claimed': {'category': 'model_checking', 'text': c['text'], 'design_ref': c['ref']},
              'level_note': c['note'],
              'technique': c.get('technique', TECH)})
        else:
            m['not_applicable'].append({'property_id': pid,
              'reason': NA.get(pid, 'check not built yet in this round (planned, see DESIGN.md 5)')})
    json.dump(m, open(os.path.join(ROOT, 'MANIFEST.json'), 'w'), indent=1)
    print('MANIFEST.json:', len(m['checks']), 'checks,', len(m['not_applicable']), 'not applicable')
main()
