#!/usr/bin/env python3
"""tools/gen_results.py - rewrites the generated tables of DESIGN.md section 10 (between the
<!-- BEGIN:name --> / <!-- END:name --> markers) from evidence/*.json, known_findings.json and
seeded/*/meta.json."""
import glob
import json
import os
import re

ROOT = os.path.dirname(os.path.dirname(os.path.abspath(__file__)))


def _thorough(pid):
    f = os.path.join(ROOT, 'evidence', 'thorough', f'{pid}.json')
    if not os.path.exists(f):
        return '-'
    e = json.load(open(f))
    c = e.get('coverage', {})
    return '{} inst, {} paths, {}/{} obl., {} s'.format(c.get('harness_instances'), c.get('states'), c.get('discharged'),
                                                        c.get('obligations'), e.get('wall_s'))


def status_table():
    rows = ['| property | tier of the evidence file | instances | paths | solver queries | solver s | wall s | obligations discharged | known findings reproduced | thorough tier (evidence/thorough) |',
            '|---|---|---|---|---|---|---|---|---|---|']
    for f in sorted(glob.glob(os.path.join(ROOT, 'evidence', 'C*.json'))):
        e = json.load(open(f))
        c = e.get('coverage', {})
        kf = c.get('known_findings_reproduced', []) or []
        rows.append('| {} | {} | {} | {} | {} | {} | {} | {}/{} | {} | {} |'.format(
            e.get('property_id'), e.get('tier', ''), c.get('harness_instances', ''), c.get('states', ''),
            c.get('queries', ''), c.get('solver_s', ''), e.get('wall_s', ''), c.get('discharged', ''),
            c.get('obligations', ''), ', '.join(kf) if kf else '-', _thorough(e.get('property_id'))))
    return '\n'.join(rows)


def fixed_table():
    d = json.load(open(os.path.join(ROOT, 'known_findings.json')))
    rows = ['| property | commit | what failed |', '|---|---|---|']
    for f in d['findings']:
        if f['status'] == 'fixed':
            e = f['entry']
            what = e.split(' ', 3)[3] if e.startswith('fixed: property=') else e
            rows.append(f"| {f['property']} | `{f['commit']}` | {what.replace('|', '/')} |")
    return '\n'.join(rows)


def known_table():
    d = json.load(open(os.path.join(ROOT, 'known_findings.json')))
    rows = ['| property | obligation@region | what fails | why recorded rather than repaired |', '|---|---|---|---|']
    for f in d['findings']:
        if f['status'] == 'known':
            rows.append(f"| {f['property']} | `{f['obligation']}` | {f['what'].replace('|', '/')} | {f.get('why_not_fixed', '').replace('|', '/')} |")
    return '\n'.join(rows)


def seed_table():
    rows = ['| seeded change | written for | caught by (quick tier) | note | what it needs to manifest |', '|---|---|---|---|---|']
    for m in sorted(glob.glob(os.path.join(ROOT, 'seeded', '*', 'meta.json'))):
        j = json.load(open(m))
        sid = os.path.basename(os.path.dirname(m))
        note = 'missed at first, see history in meta.json' if j.get('history') else ''
        rows.append('| `{}` | {} | {} | {} | {} |'.format(
            sid, j['property'], ', '.join(j.get('caught_by') or ['**MISSED**']), note,
            (j.get('needs') or '').replace('|', '/').replace('\n', ' ')[:220]))
    return '\n'.join(rows)


def main():
    p = os.path.join(ROOT, 'DESIGN.md')
    s = open(p).read()
    for name, fn in (('status', status_table), ('fixed', fixed_table), ('known', known_table), ('seeds', seed_table)):
        pat = re.compile(r'(<!-- BEGIN:%s -->\n).*?(<!-- END:%s -->)' % (name, name), re.S)
        if not pat.search(s):
            print('marker missing:', name)
            continue
        s = pat.sub(lambda m: m.group(1) + fn() + '\n' + m.group(2), s)
    open(p, 'w').write(s)
    print('DESIGN.md tables regenerated')


if __name__ == '__main__':
    main()
