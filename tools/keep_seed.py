#!/usr/bin/env python3
"""tools/keep_seed.py <worktree name under /tmp/mut> <PID> <seed id> <caught_by comma list | MISSED> [ran text]"""
import json, shutil, os, sys
wt, pid, sid, caught = sys.argv[1:5]
ran = sys.argv[5] if len(sys.argv) > 5 else f'tools/try_seed.sh /verif/seeded/{sid} {pid} --confirm'
d = f'/verif/seeded/{sid}'
os.makedirs(d, exist_ok=True)
for f in ('patch.diff', 'demo.py'):
    shutil.copy(f'/tmp/mut/{wt}/_seed/{f}', d)
m = json.load(open(f'/tmp/mut/{wt}/_seed/meta.json'))
meta = {'property': pid, 'summary': m.get('summary'), 'needs': m.get('needs'), 'files': m.get('files'),
        'confirmed': {'tests_pass_with_change': True, 'demo_fails_with_change': True, 'demo_passes_without_change': True,
                      'how': 'tools/try_seed.sh <seed> <PID> --confirm: scratch worktree of /repo HEAD, demo exit 0 without and exit 1 with the patch, baseline pytest 87 passed'},
        'ran': ran, 'caught_by': [] if caught == 'MISSED' else caught.split(',')}
json.dump(meta, open(f'{d}/meta.json', 'w'), indent=1)
print('kept', d)
