#!/bin/bash
# tools/run_all_seeds.sh - re-tries every kept seed against the current /repo HEAD (scratch worktrees,
# quick tier of the checks named in meta.json "caught_by") and writes seeded/RESULTS.md
cd /verif
out=seeded/RESULTS.md
echo "# Seed regression run against /repo $(git -C /repo rev-parse --short HEAD) ($(date -u +%Y-%m-%dT%H:%MZ))" > $out
echo "" >> $out
echo "| seed | check | exit | verdict |" >> $out
echo "|---|---|---|---|" >> $out
for d in seeded/*/; do
  sid=$(basename $d)
  [ -f $d/meta.json ] || continue
  checks=$(python3 /verif/tools/seed_checks.py "$d/meta.json")
  first=$(echo $checks | cut -d' ' -f1)
  rest=$(echo $checks | cut -s -d' ' -f2-)
  res=$(tools/try_seed.sh $d $first $rest 2>&1)
  if echo "$res" | grep -q "patch does not apply"; then
    echo "| $sid | - | - | patch no longer applies to HEAD |" >> $out
    continue
  fi
  echo "$res" | grep "^== " | while read -r _ chk ex; do
    code=${ex#exit=}
    v=$( [ "$code" = "1" ] && echo "caught (VIOLATION replayed)" || echo "NOT caught" )
    echo "| $sid | $chk | $code | $v |" >> $out
  done
done
echo done >> /tmp/thorough/seeds_done.txt
