#!/usr/bin/env python3
"""prints the property ids of the checks a kept seed is expected to be caught by"""
import json
import re
import sys

m = json.load(open(sys.argv[1]))
ids = []
for c in (m.get('caught_by') or [m['property']]):
    for x in re.findall(r'C\d\d', c):
        if x not in ids:
            ids.append(x)
print(' '.join(ids or [m['property']]))
