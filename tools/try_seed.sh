#!/bin/bash
# tools/try_seed.sh <seed-dir (contains patch.diff, demo.py, meta.json)> <PID> [--confirm] [extra PIDs...]
# Applies the seeded change to /repo, runs the quick check(s), reverts.  With --confirm also
# re-validates the seed in a scratch worktree (tests pass; demo fails with / passes without).
set -u
SEED="$1"; PID="$2"; shift 2
CONFIRM=0; EXTRA=()
for a in "$@"; do if [ "$a" = "--confirm" ]; then CONFIRM=1; else EXTRA+=("$a"); fi; done
cd /repo || exit 2
if [ -n "$(git status --porcelain)" ]; then echo "/repo not clean"; exit 2; fi
if [ $CONFIRM = 1 ]; then
  WT=/tmp/seedchk.$$; git worktree add -q --detach $WT HEAD
  mkdir -p $WT/_seed && cp "$SEED/demo.py" $WT/_seed/demo.py   # demos locate the tree relative to their own path
  ( cd $WT && PYTHONPATH=$WT /venv/bin/python _seed/demo.py >/dev/null 2>&1; echo "demo without change: exit $?" )
  ( cd $WT && git apply "$SEED/patch.diff" && PYTHONPATH=$WT /venv/bin/python _seed/demo.py >/dev/null 2>&1; echo "demo with change: exit $?" )
  ( cd $WT && /venv/bin/python -m pytest -q -p no:cacheprovider --timeout=900 --continue-on-collection-errors 2>&1 | tail -1 )
  git worktree remove --force $WT
fi
EVBAK=$(mktemp -d); cp -a /verif/evidence/. $EVBAK/
cleanup() {
  git -C /repo checkout -- . 2>/dev/null
  # evidence files must describe runs on the unchanged tree: restore them
  [ -d "$EVBAK" ] && cp -a $EVBAK/. /verif/evidence/ && rm -rf $EVBAK
}
trap cleanup EXIT INT TERM PIPE
git apply "$SEED/patch.diff" || { echo "patch does not apply"; exit 2; }
cd /verif
for p in "$PID" "${EXTRA[@]}"; do
  out=$(./vf check "$p" --tier quick 2>&1); rc=$?
  echo "== $p exit=$rc"; echo "$out" | grep -E "VIOLATION|violated|INCONCLUSIVE|MACHINERY|KNOWN" | cut -c1-400 | head -8
done
cleanup; trap - EXIT
