#!/bin/bash
# tools/try_seed.sh <seed-dir (contains patch.diff, demo.py, meta.json)> <PID> [--confirm] [extra PIDs...]
# Applies the seeded change to a scratch worktree of /repo HEAD (never to /repo itself), runs the
# quick check(s) against it (DASHLIVE_REPO), removes the worktree.  With --confirm also
# re-validates the seed there (tests pass; demo fails with / passes without the change).
set -u
SEED="$(realpath "$1")"; PID="$2"; shift 2
CONFIRM=0; EXTRA=()
for a in "$@"; do if [ "$a" = "--confirm" ]; then CONFIRM=1; else EXTRA+=("$a"); fi; done
WT=/tmp/seedchk.$$
git -C /repo worktree add -q --detach $WT HEAD || exit 2
cleanup() { git -C /repo worktree remove --force $WT 2>/dev/null; git -C /repo worktree prune; }
trap cleanup EXIT INT TERM PIPE
if [ $CONFIRM = 1 ]; then
  mkdir -p $WT/_seed && cp "$SEED/demo.py" $WT/_seed/demo.py   # demos locate the tree relative to their own path
  ( cd $WT && PYTHONPATH=$WT /venv/bin/python _seed/demo.py >/dev/null 2>&1; echo "demo without change: exit $?" )
fi
( cd $WT && git apply "$SEED/patch.diff" ) || { echo "patch does not apply"; exit 2; }
if [ $CONFIRM = 1 ]; then
  ( cd $WT && PYTHONPATH=$WT /venv/bin/python _seed/demo.py >/dev/null 2>&1; echo "demo with change: exit $?" )
  ( cd $WT && /venv/bin/python -m pytest -q -p no:cacheprovider --timeout=900 --continue-on-collection-errors 2>&1 | tail -1 )
  rm -rf $WT/_seed
fi
cd /verif
for p in "$PID" "${EXTRA[@]}"; do
  out=$(DASHLIVE_REPO=$WT ./vf check "$p" --tier quick 2>&1); rc=$?
  echo "== $p exit=$rc"; echo "$out" | grep -E "VIOLATION|violated|INCONCLUSIVE|MACHINERY|KNOWN" | cut -c1-400 | head -8
done
